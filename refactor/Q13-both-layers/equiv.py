"""
Equivalence check for the C13 refactoring (spectral matrix estimation).

Runs the refactored code (imported from the worktree's src/) and the ORIGINAL code
(pristine copies of HEAD in this directory, imported by path) on random inputs that
cover the property's quantifier and asserts bit-identical outputs / equal exceptions.

    PYTHONPATH=/tmp/wt/Q13/src /venv/bin/python /tmp/wt/Q13/_refactor/equiv.py
"""

import importlib.util
import logging
import os
import sys

for _v in ("OMP_NUM_THREADS", "OPENBLAS_NUM_THREADS", "MKL_NUM_THREADS"):
    os.environ.setdefault(_v, "1")  # small matrices: threads only cost time

import numpy as np  # noqa: E402

HERE = os.path.dirname(os.path.abspath(__file__))
logging.disable(logging.CRITICAL)
os.environ.setdefault("MPLBACKEND", "Agg")

import pyoma2.algorithms.fdd as new_alg_fdd  # noqa: E402
import pyoma2.algorithms.plscf as new_alg_plscf  # noqa: E402
import pyoma2.functions.fdd as new_fn_fdd  # noqa: E402

assert os.path.abspath(new_fn_fdd.__file__).startswith("/tmp/wt/Q13/src/"), new_fn_fdd.__file__


def _load(modname, filename):
    spec = importlib.util.spec_from_file_location(modname, os.path.join(HERE, filename))
    mod = importlib.util.module_from_spec(spec)
    sys.modules[modname] = mod
    spec.loader.exec_module(mod)
    return mod


# the module names put the copies inside the package so that relative imports work
old_fn_fdd = _load("pyoma2.functions._orig_fdd", "orig_functions_fdd.py")
old_alg_fdd = _load("pyoma2.algorithms._orig_fdd", "orig_algorithms_fdd.py")
old_alg_plscf = _load("pyoma2.algorithms._orig_plscf", "orig_algorithms_plscf.py")
# the original calling layer must feed the original numerical routines
old_alg_fdd.fdd = old_fn_fdd
old_alg_plscf.fdd = old_fn_fdd
assert new_alg_fdd.fdd is new_fn_fdd and new_alg_plscf.fdd is new_fn_fdd

# silence the progress bars of SD_PreGER (identical in both versions)
for _m in (new_fn_fdd, old_fn_fdd):
    _orig_trange = _m.trange
    _m.trange = lambda *a, _t=_orig_trange, **k: _t(*a, disable=True, **k)

N_CHECKS = 0
EQUAL_ERRORS = []  # calls that fail - identically - in both versions


def same(a, b, path="value"):
    """Recursive exact comparison (type, dtype, shape, values incl. NaN pattern)."""
    global N_CHECKS
    N_CHECKS += 1
    assert type(a) is type(b), f"{path}: type {type(a)} != {type(b)}"
    if isinstance(a, np.ndarray):
        assert a.dtype == b.dtype, f"{path}: dtype {a.dtype} != {b.dtype}"
        assert a.shape == b.shape, f"{path}: shape {a.shape} != {b.shape}"
        if a.dtype.kind in "fc":
            assert np.array_equal(a, b, equal_nan=True), f"{path}: values differ"
        else:
            assert np.array_equal(a, b), f"{path}: values differ"
    elif isinstance(a, dict):
        assert list(a.keys()) == list(b.keys()), f"{path}: keys differ"
        for k in a:
            same(a[k], b[k], f"{path}[{k!r}]")
    elif isinstance(a, (list, tuple)):
        assert len(a) == len(b), f"{path}: len differ"
        for i, (x, y) in enumerate(zip(a, b)):
            same(x, y, f"{path}[{i}]")
    elif isinstance(a, float) and a != a:
        assert b != b, f"{path}: nan vs {b}"
    elif hasattr(a, "model_dump"):
        same(a.model_dump(), b.model_dump(), path)
    else:
        assert a == b, f"{path}: {a!r} != {b!r}"


def outcome(fun, *args, **kwargs):
    try:
        return ("ok", fun(*args, **kwargs))
    except Exception as exc:  # noqa: BLE001
        return ("exc", type(exc).__name__, str(exc))


def same_outcome(f_new, f_old, args_new, args_old, kwargs=None, path="call"):
    kwargs = kwargs or {}
    r_new = outcome(f_new, *args_new, **kwargs)
    r_old = outcome(f_old, *args_old, **kwargs)
    assert r_new[0] == r_old[0], f"{path}: {r_new[:2]} vs {r_old[:2]}"
    if r_new[0] == "exc":
        EQUAL_ERRORS.append(f"{path}: {r_new[1]}")
        # local variable names differ between the versions: compare the exception type,
        # and the message unless it only names an unbound local variable
        assert r_new[1] == r_old[1], f"{path}: {r_new} vs {r_old}"
        if r_new[1] != "UnboundLocalError":
            assert r_new[2] == r_old[2], f"{path}: {r_new} vs {r_old}"
    else:
        same(r_new[1], r_old[1], path)
    return r_new


def povs_for(nxseg, rng):
    """overlaps with integer nxseg*pov"""
    cands = [0.0, 0.25, 0.5, 0.75, 0.125, 0.66015625, 1 / nxseg, (nxseg - 1) / nxseg]
    cands = [p for p in cands if float(nxseg * p).is_integer() and nxseg * p < nxseg]
    if nxseg > 128:  # a hop of one sample with long segments only costs time
        cands = [p for p in cands if p <= 0.75] + [0.875]
    return [cands[i] for i in rng.permutation(len(cands))[:3]]


def coloured(rng, n_ch, n_dat):
    """broadband random records with some resonant content and a mean"""
    x = rng.standard_normal((n_ch, n_dat))
    y = np.empty_like(x)
    a1, a2 = 2 * 0.97 * np.cos(2 * np.pi * 0.11), -(0.97**2)
    y[:, 0] = x[:, 0]
    y[:, 1] = x[:, 1]
    for k in range(2, n_dat):
        y[:, k] = a1 * y[:, k - 1] + a2 * y[:, k - 2] + x[:, k]
    mix = rng.standard_normal((n_ch, n_ch))
    return mix @ y + 0.3 * x + rng.standard_normal((n_ch, 1))


# ---------------------------------------------------------------------------------
# 1. SD_est
# ---------------------------------------------------------------------------------
def check_SD_est(rng):
    n = 0
    nxsegs = [16, 24, 32, 64, 100, 128, 250, 256, 512, 1024, 4096]
    for trial in range(60):
        nxseg = nxsegs[trial % len(nxsegs)]
        n_all = int(rng.integers(1, 9))
        n_ref = int(rng.integers(1, min(4, n_all) + 1))
        n_dat = int(rng.integers(2 * nxseg, 6 * nxseg + 1))
        fs = float(rng.choice([1.0, 7.3, 100.0, 256.0, 1000.0 / 3.0, 2048.0]))
        dt = 1 / fs
        gain = 10.0 ** rng.uniform(-3, 3)
        Yall = gain * rng.standard_normal((n_all, n_dat))
        kind = trial % 3
        if kind == 0:  # reference = all channels (FDD / pLSCF single setup)
            Yref = Yall
        elif kind == 1:  # reference = a subset of the channels (rows of Yall)
            Yref = Yall[rng.permutation(n_all)[:n_ref]]
        else:  # independent reference record, as the moving block in PreGER
            Yref = rng.standard_normal((n_ref, n_dat))
        if trial % 7 == 0:  # non-contiguous input
            Yall = np.asfortranarray(Yall)
            Yref = Yall if kind == 0 else Yref
        for method in ("per", "cor"):
            for pov in povs_for(nxseg, rng):
                for style in ("pos", "kw"):
                    if style == "pos":
                        a, kw = (Yall, Yref, dt, nxseg, method, pov), {}
                    else:
                        a, kw = (Yall, Yref, dt), dict(nxseg=nxseg, method=method, pov=pov)
                    r = same_outcome(
                        new_fn_fdd.SD_est, old_fn_fdd.SD_est, a, a, kw,
                        f"SD_est[{trial},{method},{pov},{style}]",
                    )
                    assert r[0] == "ok"
                    freq, Sy = r[1]
                    assert Sy.shape == (Yall.shape[0], Yref.shape[0], nxseg // 2 + 1)
                    assert freq.shape == (nxseg // 2 + 1,)
                    n += 1
    # defaults
    Y = rng.standard_normal((3, 5000))
    same_outcome(
        new_fn_fdd.SD_est, old_fn_fdd.SD_est, (Y, Y[:2], 0.01), (Y, Y[:2], 0.01),
        path="SD_est defaults",
    )
    # other dtypes
    for dtype in (np.float32, np.int64):
        Yd = (100 * rng.standard_normal((3, 700))).astype(dtype)
        for method in ("per", "cor"):
            same_outcome(
                new_fn_fdd.SD_est, old_fn_fdd.SD_est,
                (Yd, Yd[:2], 0.01, 64, method, 0.5), (Yd, Yd[:2], 0.01, 64, method, 0.5),
                path=f"SD_est dtype {dtype.__name__} {method}",
            )
            n += 1
    # equal exceptions on bad input
    Y = rng.standard_normal((3, 400))
    bad = [
        (Y, Y, 0.01, 64, "welch", 0.5),  # unknown estimator
        (Y, Y[:, :300], 0.01, 64, "per", 0.5),  # records of different length
        (Y, Y[:, :300], 0.01, 64, "cor", 0.5),
        (Y, Y[0], 0.01, 64, "per", 0.5),  # 1-D reference
        (Y[0], Y, 0.01, 64, "cor", 0.5),  # 1-D data
        (Y, Y, 0.01, 64, "per", 1.0),  # noverlap == nperseg
        (Y, Y, 0.01, 64.0, "cor", 0.5),  # float segment length
        (Y.tolist(), Y, 0.01, 64, "per", 0.5),  # list instead of array
        (Y, Y, 0.0, 64, "per", 0.5),  # dt = 0
    ]
    for i, a in enumerate(bad):
        with np.errstate(all="ignore"):
            r = same_outcome(new_fn_fdd.SD_est, old_fn_fdd.SD_est, a, a, path=f"SD_est bad[{i}]")
        n += 1
    return n


# ---------------------------------------------------------------------------------
# 2. SD_PreGER
# ---------------------------------------------------------------------------------
def random_setups(rng, nxseg, n_setup=None, n_ref=None):
    n_setup = n_setup or int(rng.integers(1, 5))
    n_ref = n_ref or int(rng.integers(1, 4))
    Y = []
    for _ in range(n_setup):
        n_mov = int(rng.integers(1, 5))
        n_dat = int(rng.integers(3 * nxseg, 8 * nxseg))
        rec = coloured(rng, n_ref + n_mov, n_dat)
        Y.append({"ref": rec[:n_ref], "mov": rec[n_ref:]})
    return Y


def check_SD_PreGER(rng):
    n = 0
    for trial in range(24):
        nxseg = [16, 32, 64, 128, 256, 1024][trial % 6]
        Y = random_setups(rng, nxseg)
        fs = float(rng.choice([1.0, 50.0, 100.0, 333.3]))
        for method in ("per", "cor"):
            for pov in povs_for(nxseg, rng)[:2]:
                for style in ("kw", "pos"):
                    if style == "pos":  # SD_PreGER(Y, fs, nxseg, pov, method)
                        a, kw = (Y, fs, nxseg, pov, method), {}
                    else:
                        a, kw = (Y, fs), dict(nxseg=nxseg, method=method, pov=pov)
                    r = same_outcome(
                        new_fn_fdd.SD_PreGER, old_fn_fdd.SD_PreGER, a, a, kw,
                        f"SD_PreGER[{trial},{method},{pov},{style}]",
                    )
                    assert r[0] == "ok"
                    freq, Sy = r[1]
                    n_dof = Y[0]["ref"].shape[0] + sum(s["mov"].shape[0] for s in Y)
                    assert Sy.shape == (n_dof, Y[0]["ref"].shape[0], nxseg // 2 + 1)
                    n += 1
    Y = random_setups(rng, 64, n_setup=2, n_ref=2)
    # defaults (nxseg=1024 longer than the records: scipy shortens the segments)
    import warnings

    with warnings.catch_warnings():
        warnings.simplefilter("ignore")
        same_outcome(
            new_fn_fdd.SD_PreGER, old_fn_fdd.SD_PreGER, (Y, 10.0), (Y, 10.0),
            path="SD_PreGER defaults on short records",
        )
    bad = [
        ((Y, 10.0), dict(nxseg=64, method="welch", pov=0.5)),  # unknown estimator
        (([], 10.0), dict(nxseg=64, method="per", pov=0.5)),  # no setups
        ((Y, 0.0), dict(nxseg=64, method="per", pov=0.5)),  # fs = 0
        (([{"ref": Y[0]["ref"]}], 10.0), dict(nxseg=64, method="cor", pov=0.5)),  # no 'mov'
        (
            ([Y[0], {"ref": Y[1]["ref"][:, :100], "mov": Y[1]["mov"]}], 10.0),
            dict(nxseg=64, method="per", pov=0.5),
        ),
    ]
    for i, (a, kw) in enumerate(bad):
        same_outcome(new_fn_fdd.SD_PreGER, old_fn_fdd.SD_PreGER, a, a, kw, f"SD_PreGER bad[{i}]")
        n += 1
    return n


# ---------------------------------------------------------------------------------
# 3. calling layer: run / mpe / mpe_from_plot of the algorithm classes
# ---------------------------------------------------------------------------------
class FakeSelFromPlot:
    """stands in for the interactive Tk window: returns preset frequencies"""

    preset = []

    def __init__(self, algo, freqlim=None, plot="FDD"):
        # what the real window does on start-up: it only READS the result
        assert algo.result is not None and algo.result.freq is not None
        self.result = (list(FakeSelFromPlot.preset), None)


for _m in (new_alg_fdd, old_alg_fdd):
    _m.SelFromPlot = FakeSelFromPlot


def run_algo(mod, clsname, data, fs, params, steps):
    """run(), then the given mpe steps; returns everything observable"""
    algo = getattr(mod, clsname)(**params)
    algo._set_data(data=data, fs=fs)
    algo._pre_run()
    result = algo.run()
    assert type(result) is algo.ResultCls
    algo._set_result(result)
    out = [result.model_dump()]
    for name, args, kwargs in steps:
        ret = getattr(algo, name)(*args, **kwargs)
        out.append((ret, algo.result.model_dump(), algo.run_params.model_dump()))
    return out


def check_algorithms(rng):
    n = 0
    # single setup ------------------------------------------------------------
    for trial in range(10):
        nxseg = [64, 128, 256, 512][trial % 4]
        n_ch = int(rng.integers(1, 7))
        n_dat = int(rng.integers(4 * nxseg, 10 * nxseg))
        fs = float(rng.choice([20.0, 100.0, 512.0]))
        data = coloured(rng, n_ch, n_dat).T  # setups hand over (time x channels)
        for method in ("per", "cor"):
            pov = povs_for(nxseg, rng)[0]
            sd = dict(nxseg=nxseg, method_SD=method, pov=pov)
            sel = [0.11 * fs, 0.3 * fs]
            FakeSelFromPlot.preset = sel
            cases = [
                ("FDD", sd, [("mpe", (), dict(sel_freq=sel, DF=0.05 * fs)),
                             ("mpe_from_plot", (), dict(DF=0.02 * fs)),
                             ("mpe", (sel, 0.04 * fs), {}),
                             ("mpe_from_plot", ((0.0, fs / 4), 0.03 * fs), {})]),
                ("EFDD", sd, [("mpe", (), dict(sel_freq=sel[:1], DF1=0.05 * fs, DF2=0.2 * fs,
                                                 npmax=6, sppk=1))]),
                ("FSDD", sd, []),
            ]
            for clsname, params, steps in cases:
                r = same_outcome(
                    run_algo, run_algo,
                    (new_alg_fdd, clsname, data, fs, params, steps),
                    (old_alg_fdd, clsname, data, fs, params, steps),
                    path=f"{clsname}[{trial},{method}]",
                )
                # (a single channel makes FDD_mpe fail in the original as well, and the
                #  EFDD fit may fail on random data: then the errors have to be equal)
                assert r[0] == "ok" or n_ch == 1 or clsname == "EFDD", (clsname, trial, r)
                n += 1
            if trial < 6 and n_ch >= 2:
                params = dict(sd, ordmax=int(rng.integers(4, 9)), ordmin=int(rng.integers(0, 3)))
                if trial % 2:
                    params["hc"] = dict(conj=False, xi_max=0.2, mpc_lim=0.5, mpd_lim=0.5)
                r = same_outcome(
                    run_algo, run_algo,
                    (new_alg_plscf, "pLSCF", data, fs, params, []),
                    (old_alg_plscf, "pLSCF", data, fs, params, []),
                    path=f"pLSCF[{trial},{method}]",
                )
                assert r[0] == "ok", r
                n += 1
    # multi setup -------------------------------------------------------------
    for trial in range(8):
        nxseg = [64, 128, 256][trial % 3]
        Y = random_setups(rng, nxseg)
        fs = float(rng.choice([20.0, 100.0]))
        for method in ("per", "cor"):
            pov = povs_for(nxseg, rng)[0]
            sd = dict(nxseg=nxseg, method_SD=method, pov=pov)
            sel = [0.11 * fs]
            FakeSelFromPlot.preset = sel
            # FDD_mpe needs two singular values, i.e. two reference channels
            ms_steps = [("mpe", (), dict(sel_freq=sel, DF=0.05 * fs)),
                        ("mpe_from_plot", (), dict(DF=0.03 * fs))]
            if Y[0]["ref"].shape[0] < 2:
                ms_steps = []
            for clsname, steps in (("FDD_MS", ms_steps), ("EFDD_MS", [])):
                r = same_outcome(
                    run_algo, run_algo,
                    (new_alg_fdd, clsname, Y, fs, sd, steps),
                    (old_alg_fdd, clsname, Y, fs, sd, steps),
                    path=f"{clsname}[{trial},{method}]",
                )
                assert r[0] == "ok", r
                n += 1
            if trial < 4:
                params = dict(sd, ordmax=int(rng.integers(4, 8)))
                r = same_outcome(
                    run_algo, run_algo,
                    (new_alg_plscf, "pLSCF_MS", Y, fs, params, []),
                    (old_alg_plscf, "pLSCF_MS", Y, fs, params, []),
                    path=f"pLSCF_MS[{trial},{method}]",
                )
                assert r[0] == "ok", r
                n += 1
    # mpe before run: same error
    for mod in (new_alg_fdd, old_alg_fdd):
        algo = mod.FDD(nxseg=64)
        for call in (lambda: algo.mpe([1.0]), lambda: algo.mpe_from_plot()):
            r = outcome(call)
            assert r[:2] == ("exc", "ValueError"), r
    return n


def main():
    rng = np.random.default_rng(20261003)
    with np.errstate(all="ignore"):
        n1 = check_SD_est(rng)
        print(f"SD_est     : {n1} calls identical")
        n2 = check_SD_PreGER(rng)
        print(f"SD_PreGER  : {n2} calls identical")
        n3 = check_algorithms(rng)
        print(f"algorithms : {n3} run/mpe scenarios identical")
    print(f"{N_CHECKS} leaf comparisons, all bit-identical")
    print(f"{len(EQUAL_ERRORS)} calls raise the same exception in both versions:")
    for line in EQUAL_ERRORS:
        print("   ", line)
    print("PASS")


if __name__ == "__main__":
    main()
