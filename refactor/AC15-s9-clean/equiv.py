"""
Differential test: MultiSetup_PoSER of the tree on PYTHONPATH against the pristine
implementation (orig_multi.py, a copy of src/pyoma2/setup/multi.py at HEAD).

Run as:  PYTHONPATH=<tree>/src /venv/bin/python equiv.py
Random configurations of 0..4 setups x algorithm type lists x run/mpe states x name lists are
given to both constructors; the outcome (exception type and message, or the accepted object's
names / ref_ind / setups, the merged results, the result property, the setter guard and a
pickle round trip) must be identical.
"""

import importlib.util
import logging
import os
import pickle
import sys
import typing
import warnings

import numpy as np
from scipy import signal

logging.disable(logging.CRITICAL)
warnings.filterwarnings("ignore")

from pyoma2.algorithms import FDD, BaseAlgorithm, SSIcov, SSIdat  # noqa: E402
from pyoma2.algorithms.data.result import BaseResult  # noqa: E402
from pyoma2.algorithms.data.run_params import BaseRunParams  # noqa: E402
from pyoma2.setup import SingleSetup  # noqa: E402
from pyoma2.setup import multi as new_multi  # noqa: E402

HERE = os.path.dirname(os.path.abspath(__file__))
spec = importlib.util.spec_from_file_location(
    "orig_multi", os.path.join(HERE, "orig_multi.py")
)
orig_multi = importlib.util.module_from_spec(spec)
sys.modules["orig_multi"] = orig_multi
spec.loader.exec_module(orig_multi)

NEW = new_multi.MultiSetup_PoSER
OLD = orig_multi.MultiSetup_PoSER


# --- cheap algorithms whose result depends on the data and on the parameters ------------
class StubParams(BaseRunParams):
    gain: float = 1.0
    sel_freq: typing.Optional[typing.List[float]] = None


class StubResult(BaseResult):
    Xi: typing.Optional[typing.Any] = None
    G: typing.Optional[typing.Any] = None


class StubA(BaseAlgorithm[StubParams, StubResult, typing.Iterable[float]]):
    RunParamCls = StubParams
    ResultCls = StubResult

    def run(self) -> StubResult:
        Y = self.data.T
        return StubResult(G=self.run_params.gain * (Y @ Y.T) / Y.shape[1])

    def mpe(self, sel_freq):
        BaseAlgorithm.mpe(self, sel_freq=sel_freq)
        self.run_params.sel_freq = sel_freq
        w, v = np.linalg.eigh(self.result.G)
        n = len(sel_freq)
        self.result.Fn = np.asarray(sel_freq) * (1 + 1e-2 * w[-n:])
        self.result.Xi = 0.01 + 1e-3 * w[-n:]
        self.result.Phi = v[:, -n:]

    def mpe_from_plot(self, *args, **kwargs):
        raise NotImplementedError


class StubB(StubA):
    """Subclass of StubA (as EFDD is of FDD)."""


class StubC(BaseAlgorithm[StubParams, StubResult, typing.Iterable[float]]):
    RunParamCls = StubParams
    ResultCls = StubResult
    run = StubA.run
    mpe = StubA.mpe
    mpe_from_plot = StubA.mpe_from_plot


POOL = {
    "A": lambda name, g: StubA(name=name, gain=g),
    "B": lambda name, g: StubB(name=name, gain=g),
    "C": lambda name, g: StubC(name=name, gain=g),
    "fdd": lambda name, g: FDD(name=name, nxseg=128),
    "ssicov": lambda name, g: SSIcov(name=name, br=8, ordmax=16),
    "ssidat": lambda name, g: SSIdat(name=name, br=8, ordmax=16),
}
SEL = [2.0, 5.3]


def data(rng, nch, n=3000):
    """Response of a 3-mode system to white noise, measured on nch channels."""
    fs, xi = 50.0, 0.02
    q = np.zeros((n, 3))
    for k, f in enumerate((2.0, 5.3, 9.0)):
        w = 2 * np.pi * f
        b, a = signal.bilinear([w**2], [1, 2 * xi * w, w**2], fs=fs)
        q[:, k] = signal.lfilter(b, a, rng.randn(n))
    x = np.linspace(0.15, 1.0, nch)
    shapes = np.stack([np.sin((2 * k + 1) * np.pi * x / 2) for k in range(3)], axis=1)
    y = q @ (shapes * rng.uniform(0.8, 1.2, 3)).T
    return y + 0.05 * y.std() * rng.randn(n, nch)


def build_setup(rng, kinds, states):
    ss = SingleSetup(data(rng, int(rng.randint(3, 7))), fs=50.0)
    algs = [POOL[k](f"{k}{i}", float(rng.uniform(0.5, 2.0))) for i, k in enumerate(kinds)]
    if algs:
        ss.add_algorithms(*algs)
    for alg, kind, st in zip(algs, kinds, states):
        if st in ("run", "mpe"):
            ss.run_by_name(alg.name)
        if st == "mpe":
            if kind in ("ssicov", "ssidat"):
                ss.mpe(alg.name, sel_freq=SEL, order=14)
            elif kind == "fdd":
                ss.mpe(alg.name, sel_freq=SEL, DF=0.5)
            else:
                ss.mpe(alg.name, sel_freq=SEL)
    return ss


def random_config(rng, real):
    pool = ["ssicov", "ssidat", "ssicov", "ssidat", "fdd"] if real else ["A", "B", "C"]
    n_setups = int(rng.choice([0, 1, 2, 2, 2, 3, 3, 3, 4, 4]))
    base = [str(rng.choice(pool)) for _ in range(int(rng.choice([0, 1, 1, 1, 2, 2, 2, 3, 3])))]
    setups = []
    for _ in range(n_setups):
        kinds = list(base)
        r = rng.rand()
        if r < 0.04 and len(kinds) > 1:
            kinds = kinds[::-1]
        elif r < 0.08 and kinds:
            kinds = kinds[:-1]
        elif r < 0.12:
            kinds = kinds + [str(rng.choice(pool))]
        elif r < 0.16 and kinds:
            kinds[int(rng.randint(len(kinds)))] = str(rng.choice(pool))
        states = [str(rng.choice(["mpe"] * 30 + ["run", "new"])) for _ in kinds]
        setups.append(build_setup(rng, kinds, states))
    r = rng.rand()
    if r < 0.6:
        names = [f"n{i}" for i in range(len(base))]
    elif r < 0.7:
        names = ["dup"] * len(base)
    else:
        names = [f"n{i}" for i in range(int(rng.randint(0, 5)))]
    if rng.rand() < 0.2:
        names = tuple(names)
    ref_ind = [[0, 1] for _ in range(n_setups)]
    return ref_ind, setups, names


def construct(cls, ref_ind, setups, names):
    try:
        return cls(ref_ind=ref_ind, single_setups=setups, names=names), None
    except Exception as exc:  # noqa: BLE001
        return None, (type(exc).__name__, str(exc))


def merged(obj):
    try:
        res = obj.merge_results()
    except Exception as exc:  # noqa: BLE001
        return None, (type(exc).__name__, str(exc))
    return res, None


def same_array(a, b):
    a, b = np.asarray(a), np.asarray(b)
    return a.shape == b.shape and (
        np.array_equal(a, b) or np.allclose(a, b, rtol=1e-12, atol=0, equal_nan=True)
    )


def same_results(r1, r2):
    if list(r1) != list(r2):
        return False
    for k in r1:
        for field in ("Phi", "Fn", "Fn_cov", "Xi", "Xi_cov"):
            if not same_array(getattr(r1[k], field), getattr(r2[k], field)):
                return False
    return True


def main():
    rng = np.random.RandomState(20240915)
    n_cfg = n_acc = n_merged = n_real = 0
    kinds_seen = {}
    errors = []
    for i in range(240):
        real = i % 8 == 0
        ref_ind, setups, names = random_config(rng, real)
        n_cfg += 1
        o_new, e_new = construct(NEW, ref_ind, setups, names)
        o_old, e_old = construct(OLD, ref_ind, setups, names)
        label = f"cfg {i}: {[[type(a).__name__ for a in s.algorithms.values()] for s in setups]} names={names!r}"
        if e_new != e_old:
            errors.append(f"{label}: constructor {e_new} vs {e_old}")
            continue
        if e_new is not None:
            kinds_seen[e_new[1][:40]] = kinds_seen.get(e_new[1][:40], 0) + 1
            continue
        n_acc += 1
        if list(o_new.names) != list(o_old.names):
            errors.append(f"{label}: names differ")
        if o_new.ref_ind != o_old.ref_ind:
            errors.append(f"{label}: ref_ind differ")
        if len(o_new.setups) != len(o_old.setups) or any(
            a is not b for a, b in zip(o_new.setups, o_old.setups)
        ):
            errors.append(f"{label}: setups differ")
        for obj in (o_new, o_old):
            try:
                obj.setups = []
                errors.append(f"{label}: setups setter did not raise")
            except AttributeError:
                pass
            try:
                _ = obj.result
                errors.append(f"{label}: result available before merge")
            except ValueError:
                pass
        r_new, me_new = merged(o_new)
        r_old, me_old = merged(o_old)
        if me_new != me_old:
            errors.append(f"{label}: merge_results {me_new} vs {me_old}")
            continue
        if me_new is not None:
            continue
        n_merged += 1
        n_real += int(real)
        if not same_results(r_new, r_old) or not same_results(o_new.result, o_old.result):
            errors.append(f"{label}: merged results differ")
        # persistence of the new object: equal names / results after a pickle round trip
        back = pickle.loads(pickle.dumps(o_new))
        if list(back.names) != list(o_new.names) or not same_results(
            back.result, o_new.result
        ):
            errors.append(f"{label}: pickle round trip differs")
        r_back, me_back = merged(back)
        if me_back is not None or not same_results(r_back, r_new):
            errors.append(f"{label}: merge after pickle round trip differs")

    print(
        f"{n_cfg} configurations, {n_acc} accepted by both, {n_merged} merged "
        f"({n_real} with SSIcov/SSIdat/FDD); rejections by message:"
    )
    for k, v in sorted(kinds_seen.items()):
        print(f"   {v:4d}  {k}")
    if errors:
        print("FAIL")
        for e in errors[:20]:
            print("  -", e)
        return 1
    print("PASS")
    return 0


if __name__ == "__main__":
    sys.exit(main())
