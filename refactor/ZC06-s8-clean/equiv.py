"""
Differential test: the refactored FDD routines / classes against the pristine sources
saved next to this script (orig_functions_fdd.py, orig_algorithms_fdd.py).

Run as:  PYTHONPATH=<tree>/src /venv/bin/python equiv.py
Prints PASS and exits 0 when every compared output (or raised exception type) agrees.
"""

import importlib.util
import logging
import os
import sys
import types
import warnings

import numpy as np
from scipy import signal

logging.disable(logging.CRITICAL)
warnings.filterwarnings("ignore")

HERE = os.path.dirname(os.path.abspath(__file__))

import pyoma2.algorithms.fdd as new_alg  # noqa: E402
import pyoma2.functions.fdd as new_fdd  # noqa: E402
from pyoma2.setup import MultiSetup_PreGER, SingleSetup  # noqa: E402


def load(name, fname, package):
    spec = importlib.util.spec_from_file_location(name, os.path.join(HERE, fname))
    mod = importlib.util.module_from_spec(spec)
    mod.__package__ = package
    sys.modules[name] = mod
    spec.loader.exec_module(mod)
    return mod


orig_fdd = load("pyoma2.functions._orig_fdd", "orig_functions_fdd.py", "pyoma2.functions")
orig_alg = load(
    "pyoma2.algorithms._orig_fdd", "orig_algorithms_fdd.py", "pyoma2.algorithms"
)
orig_alg.fdd = orig_fdd  # the pristine classes call the pristine functions


# ---- silence the progress bars of both implementations
def _quiet_tqdm(it, *a, **k):
    return it


def _quiet_trange(*a, **k):
    return range(*a)


for m in (orig_fdd, new_fdd):
    m.tqdm = _quiet_tqdm
    m.trange = _quiet_trange

failures = []
ncases = 0


def same(a, b):
    if a is None or b is None:
        return a is None and b is None
    if isinstance(a, (list, tuple)):
        return (
            isinstance(b, (list, tuple))
            and len(a) == len(b)
            and all(same(x, y) for x, y in zip(a, b))
        )
    a = np.asarray(a)
    b = np.asarray(b)
    if a.shape != b.shape:
        return False
    return bool(
        np.array_equal(a, b) or np.allclose(a, b, rtol=1e-12, atol=0.0, equal_nan=True)
    )


def outcome(fn, *args, **kwargs):
    try:
        return ("ok", fn(*args, **kwargs))
    except Exception as e:  # noqa: BLE001 - the type is what is compared
        return ("exc", type(e))


def compare(tag, o, n):
    global ncases
    ncases += 1
    if o[0] != n[0]:
        failures.append(f"{tag}: original {o[0]} ({o[1]!r}) vs new {n[0]} ({n[1]!r})")
    elif o[0] == "exc":
        if o[1] is not n[1]:
            failures.append(f"{tag}: exception {o[1].__name__} vs {n[1].__name__}")
    elif not same(o[1], n[1]):
        failures.append(f"{tag}: results differ")


# ----------------------------------------------------------------------------------------
# 1. FDD_mpe on random inputs
# ----------------------------------------------------------------------------------------
def random_spectra(rng, nr, nc, nf, hermitian):
    Sy = np.zeros((nr, nc, nf), dtype=complex)
    for k in range(nf):
        B = rng.standard_normal((nr, nc)) + 1j * rng.standard_normal((nr, nc))
        if hermitian and nr == nc:
            B = B @ B.conj().T
        g = 1 + 30 * np.exp(-((k - nf * rng.uniform(0.2, 0.8)) ** 2) / 20)
        a = rng.standard_normal(nr) + 1j * rng.standard_normal(nr)
        b = a[:nc] if hermitian else rng.standard_normal(nc) + 1j * rng.standard_normal(nc)
        Sy[:, :, k] = B + g * np.outer(a.conj(), b)
    return Sy


def test_fdd_mpe(rng):
    for case in range(40):
        nf = int(rng.integers(40, 300))
        fmax = float(rng.uniform(1, 200))
        freq = np.linspace(0, fmax, nf)
        df = freq[1] - freq[0]
        if case % 4 == 0:
            # as in the unit test: plain real random arrays
            n = int(rng.integers(2, 6))
            Sval = rng.random((n, n, nf))
            Svec = rng.random((n, n, nf))
        else:
            nr = int(rng.integers(2, 9))
            nc = nr if case % 4 != 3 else int(rng.integers(2, nr + 1))
            Sy = random_spectra(rng, nr, nc, nf, hermitian=bool(case % 2))
            o = outcome(orig_fdd.SD_svalsvec, Sy)
            n_ = outcome(new_fdd.SD_svalsvec, Sy)
            compare(f"SD_svalsvec case {case}", o, n_)
            Sval, Svec = o[1]
        nsel = int(rng.integers(1, 6))
        sel = rng.uniform(-0.05 * fmax, 1.05 * fmax, size=nsel)
        if case % 3 == 0:
            sel = list(sel)
        elif case % 3 == 1:
            sel = [float(freq[int(rng.integers(0, nf))]) for _ in range(nsel)]
        DF = float(rng.choice([0.2, 0.6, 1.0, 2.5, 7.0]) * df)
        if case % 10 == 9:
            DF = 0.1 * df  # band without lines
        Sv_o, Sc_o = Sval.copy(), Svec.copy()
        Sv_n, Sc_n = Sval.copy(), Svec.copy()
        o = outcome(orig_fdd.FDD_mpe, Sv_o, Sc_o, freq, sel, DF)
        n_ = outcome(new_fdd.FDD_mpe, Sv_n, Sc_n, freq, sel, DF)
        compare(f"FDD_mpe case {case}", o, n_)
        compare(
            f"FDD_mpe case {case} (arguments after the call)",
            ("ok", (Sv_o, Sc_o)),
            ("ok", (Sv_n, Sc_n)),
        )
        if case % 5 == 0:
            # default DF, keyword call, frequency axis given as a list
            o = outcome(orig_fdd.FDD_mpe, Sval=Sval, Svec=Svec, freq=freq, sel_freq=sel)
            n_ = outcome(
                new_fdd.FDD_mpe, Sval=Sval, Svec=Svec, freq=list(freq), sel_freq=sel
            )
            compare(f"FDD_mpe case {case} (default DF)", o, n_)


# ----------------------------------------------------------------------------------------
# 2. classes, end to end
# ----------------------------------------------------------------------------------------
FS = 100.0
FREQS = (6.0, 14.0, 23.0)


def simulate(rng, shapes, ndat, noise=0.02):
    q = []
    for fn in FREQS:
        wn, xi = 2 * np.pi * fn, 0.01
        lam = -xi * wn + 1j * wn * np.sqrt(1 - xi**2)
        z = np.exp(lam / FS)
        a = np.poly([z, z.conj()]).real
        q.append(signal.lfilter([1.0], a, rng.standard_normal(ndat + 2000))[2000:])
    q = np.array(q)
    q /= q.std(axis=1, keepdims=True)
    y = shapes @ q
    return (y + noise * rng.standard_normal(y.shape)).T


def result_fields(algo):
    res = algo.result
    if res is None:
        return None
    out = [res.freq, res.Sy, res.S_val, res.S_vec, res.Fn, res.Phi]
    if hasattr(res, "Xi"):
        out.append(res.Xi)
    rp = algo.run_params
    out.append([np.asarray(getattr(rp, "sel_freq", None), dtype=float)])
    out.append([getattr(rp, k, None) for k in ("DF", "DF1", "DF2") if hasattr(rp, k)])
    return out


class _FakeSFP:
    """Stands in for the interactive selection: hands back a fixed list."""

    picks = []

    def __init__(self, algo, freqlim=None, plot="FDD"):
        self.result = (list(self.picks), None)


def test_classes(rng):
    shapes = rng.uniform(-1, 1, size=(6, 3))
    data = simulate(rng, shapes[:5], 20000)
    d1 = simulate(rng, shapes[[0, 1, 2, 3]], 15000)
    d2 = simulate(rng, shapes[[0, 1, 4, 5]], 15000)
    orig_alg.SelFromPlot = _FakeSFP
    new_alg.SelFromPlot = _FakeSFP

    for case in range(12):
        nxseg = int(rng.choice([256, 512, 1024]))
        method = str(rng.choice(["per", "cor"]))
        pov = float(rng.choice([0.5, 0.66]))
        DF = float(rng.choice([0.1, 0.25, 0.6]))
        sel = sorted(rng.uniform(3, 30, size=int(rng.integers(1, 5))).tolist())
        if case % 3 == 2:
            sel = sel[::-1]
        pair = []
        for mod in (orig_alg, new_alg):
            if case % 4 == 3:
                setup = MultiSetup_PreGER(
                    fs=FS, ref_ind=[[0, 1], [0, 1]], datasets=[d1.copy(), d2.copy()]
                )
                algo = mod.FDD_MS(name="A", nxseg=nxseg, method_SD=method, pov=pov)
            else:
                setup = SingleSetup(data.copy(), fs=FS)
                algo = mod.FDD(name="A", nxseg=nxseg, method_SD=method, pov=pov)
            setup.add_algorithms(algo)
            steps = []
            steps.append(outcome(lambda: setup.mpe("A", sel_freq=sel, DF=DF)))
            steps.append(outcome(lambda: setup.run_by_name("A")))
            steps.append(("ok", result_fields(algo)))
            steps.append(outcome(lambda: setup.mpe("A", sel_freq=sel, DF=DF)))
            steps.append(("ok", result_fields(algo)))
            steps.append(outcome(lambda: setup.mpe("A", sel_freq=sel[:1])))
            steps.append(("ok", result_fields(algo)))
            _FakeSFP.picks = sel
            steps.append(outcome(lambda: setup.mpe_from_plot("A", DF=2 * DF)))
            steps.append(("ok", result_fields(algo)))
            pair.append(steps)
        for i, (o, n_) in enumerate(zip(*pair)):
            compare(f"class case {case} ({method}, nxseg={nxseg}) step {i}", o, n_)

    # EFDD / FSDD (first stage is FDD_mpe) and their multi-setup run
    sel = [6.05, 13.9, 23.1]
    for case, (cls, method) in enumerate(
        [("EFDD", "per"), ("FSDD", "cor"), ("FSDD", "per"), ("EFDD_MS", "per")]
    ):
        pair = []
        for mod in (orig_alg, new_alg):
            if cls == "EFDD_MS":
                setup = MultiSetup_PreGER(
                    fs=FS, ref_ind=[[0, 1], [0, 1]], datasets=[d1.copy(), d2.copy()]
                )
            else:
                setup = SingleSetup(data.copy(), fs=FS)
            algo = getattr(mod, cls)(name="A", nxseg=512, method_SD=method)
            setup.add_algorithms(algo)
            steps = [outcome(lambda: setup.run_by_name("A"))]
            steps.append(("ok", result_fields(algo)))
            steps.append(
                outcome(lambda: setup.mpe("A", sel_freq=sel, DF1=0.2, DF2=1.0, npmax=8))
            )
            steps.append(("ok", result_fields(algo)))
            pair.append(steps)
        for i, (o, n_) in enumerate(zip(*pair)):
            compare(f"{cls} {method} step {i}", o, n_)


if __name__ == "__main__":
    rng = np.random.default_rng(20606)
    test_fdd_mpe(rng)
    test_classes(rng)
    if failures:
        print("FAIL")
        for f in failures[:20]:
            print("  -", f)
        sys.exit(1)
    print(f"PASS ({ncases} comparisons)")
    sys.exit(0)
