"""
Equivalence check: refactored pyoma2 (src/) versus pristine copies (orig_*.py).

Run with
    PYTHONPATH=/tmp/wt/Q10/src /venv/bin/python /tmp/wt/Q10/_refactor/equiv.py
Prints PASS and exits 0 when every comparison is identical.
"""

import copy
import importlib.util
import os
import sys
import warnings

import numpy as np

HERE = os.path.dirname(os.path.abspath(__file__))

warnings.filterwarnings("ignore")


def _load(name, fname):
    spec = importlib.util.spec_from_file_location(name, os.path.join(HERE, fname))
    mod = importlib.util.module_from_spec(spec)
    sys.modules[name] = mod
    spec.loader.exec_module(mod)
    return mod


from pyoma2.algorithms import plscf as new_alg_plscf  # noqa: E402
from pyoma2.algorithms import ssi as new_alg_ssi  # noqa: E402
from pyoma2.functions import gen as new_gen  # noqa: E402

assert new_gen.__file__.startswith("/tmp/wt/Q10/src"), new_gen.__file__

orig_gen = _load("pyoma2.functions._orig_gen", "orig_gen.py")
# the pristine algorithm modules use relative imports (.base) -> load them inside the package
orig_alg_ssi = _load("pyoma2.algorithms._orig_alg_ssi", "orig_alg_ssi.py")
orig_alg_plscf = _load("pyoma2.algorithms._orig_alg_plscf", "orig_alg_plscf.py")
# ... and make them call the pristine numerical routines
orig_alg_ssi.gen = orig_gen
orig_alg_plscf.gen = orig_gen

N_CHECKS = 0


def same(a, b, what):
    """Strict equality: type, dtype, shape, values (NaN == NaN)."""
    global N_CHECKS
    N_CHECKS += 1
    if a is None or b is None:
        assert a is None and b is None, what
        return
    if isinstance(a, (list, tuple)):
        assert type(a) is type(b) and len(a) == len(b), what
        for x, y in zip(a, b):
            same(x, y, what)
        return
    assert type(a) is type(b), (what, type(a), type(b))
    a_, b_ = np.asarray(a), np.asarray(b)
    assert a_.dtype == b_.dtype, (what, a_.dtype, b_.dtype)
    assert a_.shape == b_.shape, (what, a_.shape, b_.shape)
    if a_.dtype.kind in "fc":
        assert np.array_equal(a_, b_, equal_nan=True), what
    else:
        assert np.array_equal(a_, b_), what


def call(f, *args, **kwargs):
    """Return ('ok', value) or ('exc', type, message)."""
    try:
        return ("ok", f(*args, **kwargs))
    except Exception as e:  # noqa: BLE001
        return ("exc", type(e), str(e))


def same_outcome(r_new, r_old, what):
    assert r_new[0] == r_old[0], (what, r_new, r_old)
    if r_new[0] == "exc":
        assert r_new[1:] == r_old[1:], (what, r_new, r_old)
    else:
        same(r_new[1], r_old[1], what)


# =============================================================================
# 1. MAC
# =============================================================================
def check_MAC(rng):
    for k in range(120):
        n = int(rng.integers(1, 8))
        kind = k % 6
        cplx = bool(rng.integers(0, 2))

        def shape(*s):
            x = rng.standard_normal(s)
            if cplx:
                x = x + 1j * rng.standard_normal(s)
            return x

        if kind == 0:  # vector / vector
            X, A = shape(n), shape(n)
        elif kind == 1:  # matrix / matrix
            X, A = shape(n, int(rng.integers(1, 5))), shape(n, int(rng.integers(1, 5)))
        elif kind == 2:  # vector / matrix, with NaN
            X, A = shape(n), shape(n, int(rng.integers(1, 5)))
            A[rng.integers(0, n), 0] = np.nan
        elif kind == 3:  # identical / scaled shapes, all-NaN shape, zero shape
            X = shape(n)
            A = [X * (2 - 1j), np.full(n, np.nan), np.zeros(n)][k % 3]
        elif kind == 4:  # mismatching first dimension -> exception
            X, A = shape(n), shape(n + 1)
        else:  # too many dimensions -> exception
            X, A = shape(n, 2, 2), shape(n, 2)
        if k % 7 == 0:  # non contiguous views, as produced by Phi[:, o, :][i, :]
            X = np.asfortranarray(X)
        same_outcome(call(new_gen.MAC, X, A), call(orig_gen.MAC, X, A), f"MAC case {k}")


# =============================================================================
# 2. SC_apply
# =============================================================================
def random_table(rng, n_rows, n_cols, n_ch):
    """Pole tables with stable branches, duplicates, close frequencies and NaN patterns."""
    base = np.sort(rng.uniform(0.5, 50.0, n_rows))
    # duplicates and closely spaced frequencies
    if n_rows > 3:
        base[1] = base[0]
        base[3] = base[2] * (1 + 1e-6)
    Fn = np.empty((n_rows, n_cols))
    Xi = np.empty((n_rows, n_cols))
    Phi = np.empty((n_rows, n_cols, n_ch), dtype=complex)
    shp = rng.standard_normal((n_rows, n_ch)) + 1j * rng.standard_normal((n_rows, n_ch))
    xi0 = rng.uniform(0.002, 0.08, n_rows)
    for o in range(n_cols):
        # perturbations around the tolerances: some poles stable, some not
        Fn[:, o] = base * (1 + rng.choice([1e-4, 5e-3, 2e-2, 0.2], n_rows) * rng.standard_normal(n_rows))
        Xi[:, o] = xi0 * (1 + rng.choice([1e-3, 3e-2, 0.1, 1.0], n_rows) * rng.standard_normal(n_rows))
        noise = rng.standard_normal((n_rows, n_ch)) + 1j * rng.standard_normal((n_rows, n_ch))
        Phi[:, o, :] = shp * np.exp(1j * rng.uniform(0, 2 * np.pi, (n_rows, 1))) + rng.choice(
            [1e-3, 0.05, 0.3, 2.0], (n_rows, 1)
        ) * noise
        # poles are not sorted in the real tables
        perm = rng.permutation(n_rows)
        Fn[:, o], Xi[:, o], Phi[:, o, :] = Fn[perm, o], Xi[perm, o], Phi[perm, o, :]
        # exact duplicates inside one order
        if n_rows > 2 and rng.random() < 0.3:
            Fn[1, o] = Fn[0, o]
    # exact repetition of a whole order (differences exactly 0)
    if n_cols > 3:
        c = int(rng.integers(1, n_cols))
        Fn[:, c], Xi[:, c], Phi[:, c, :] = Fn[:, c - 1], Xi[:, c - 1], Phi[:, c - 1, :]
    return Fn, Xi, Phi


def nan_pattern(rng, Fn, Xi, Phi, mode):
    n_rows, n_cols = Fn.shape
    if mode == 0:
        return
    if mode in (1, 4):  # random rejected poles (all three tables, as applymask does)
        m = rng.random(Fn.shape) < rng.choice([0.1, 0.4, 0.8])
        Fn[m], Xi[m], Phi[m, :] = np.nan, np.nan, np.nan
    if mode in (2, 4):  # empty orders
        for c in rng.choice(n_cols, size=max(1, n_cols // 5), replace=False):
            Fn[:, c], Xi[:, c], Phi[:, c, :] = np.nan, np.nan, np.nan
    if mode == 3:  # triangular pattern of SSI (order o has at most o poles)
        for c in range(n_cols):
            Fn[c:, c], Xi[c:, c], Phi[c:, c, :] = np.nan, np.nan, np.nan
    if mode == 5:  # NaN patterns that differ between the tables, zeros, negative values
        Xi[rng.random(Fn.shape) < 0.2] = np.nan
        Phi[rng.random(Fn.shape) < 0.2, :] = np.nan
        Fn[rng.random(Fn.shape) < 0.2] = np.nan
        Xi[rng.random(Fn.shape) < 0.1] = 0.0
        Fn[rng.random(Fn.shape) < 0.05] = 0.0
        Xi[rng.random(Fn.shape) < 0.1] *= -1
        Phi[rng.random(Fn.shape) < 0.05, :] = 0.0


def check_SC_apply(rng):
    n_lab = 0
    for k in range(240):
        ssi_like = k % 2 == 0
        ordmax = int(rng.integers(1, 41))
        n_rows = int(rng.integers(1, 25))
        n_ch = int(rng.integers(1, 6))
        if ssi_like:
            step = int(rng.choice([1, 1, 2, 3, 5]))
            n_cols = ordmax // step + 1  # orders 0..ordmax
            args_ord = (ordmax, step)
        else:
            step = 1
            n_cols = ordmax  # orders 1..ordmax
            args_ord = (ordmax - 1, 1)
        Fn, Xi, Phi = random_table(rng, n_rows, n_cols, n_ch)
        if k % 9 == 0:
            Phi = Phi.real.copy()  # real mode shapes
        nan_pattern(rng, Fn, Xi, Phi, k % 6)
        ordmin = int(rng.integers(0, ordmax + 1))
        if k % 5 == 0:
            ordmin = [0, ordmax, min(1, ordmax)][k % 3]
        err_fn, err_xi, err_phi = rng.choice([1e-3, 0.01, 0.05, 0.5]), rng.choice(
            [0.01, 0.05, 0.3, 5.0]
        ), rng.choice([1e-3, 0.03, 0.2, 1.5])
        args = (Fn, Xi, Phi, ordmin, *args_ord, err_fn, err_xi, err_phi)
        keep = [a.copy() for a in (Fn, Xi, Phi)]
        r_new = call(new_gen.SC_apply, *args)
        r_old = call(orig_gen.SC_apply, *args)
        same_outcome(r_new, r_old, f"SC_apply case {k}")
        # inputs untouched
        for a, b in zip(keep, (Fn, Xi, Phi)):
            same(a, b, "SC_apply inputs")
        # keyword call (used by the refactored callers) gives the same
        kw = dict(zip(("Fn", "Xi", "Phi", "ordmin", "ordmax", "step", "err_fn", "err_xi", "err_phi"), args))
        same_outcome(call(new_gen.SC_apply, **kw), r_old, f"SC_apply kw case {k}")
        if r_old[0] == "ok":
            n_lab += int(r_old[1].sum())
    assert n_lab > 200, n_lab  # the corpus does contain stable poles

    # degenerate / error cases: same exceptions
    Fn, Xi, Phi = random_table(rng, 6, 5, 3)
    for args in [
        (Fn, Xi, Phi, 0, 10, 1, 0.01, 0.05, 0.03),  # order beyond the table -> IndexError
        (Fn, Xi, Phi, 0, 4, 0, 0.01, 0.05, 0.03),  # step 0 -> ValueError
        (Fn, Xi[:, :3], Phi, 0, 4, 1, 0.01, 0.05, 0.03),
        (Fn, Xi, Phi[:, :, 0], 0, 4, 1, 0.01, 0.05, 0.03),
        (Fn[:0], Xi[:0], Phi[:0], 0, 4, 1, 0.01, 0.05, 0.03),  # no poles at all
        (Fn, Xi, Phi, 3, 2, 1, 0.01, 0.05, 0.03),  # empty range
        (Fn, Xi, Phi, 0, 4, 1, np.nan, 0.05, 0.03),
    ]:
        same_outcome(call(new_gen.SC_apply, *args), call(orig_gen.SC_apply, *args), "SC_apply degenerate")
    return n_lab


# =============================================================================
# 3. calling layer: run() and mpe() of the SSI / pLSCF classes
# =============================================================================
def simulate(rng, n_samples, n_ch, fs):
    """Response of a few damped oscillators to white noise + measurement noise."""
    t = np.arange(n_samples) / fs
    y = np.zeros((n_samples, n_ch))
    for f0, xi0 in [(2.0, 0.01), (5.5, 0.02), (9.0, 0.015)]:
        wn = 2 * np.pi * f0
        h = np.exp(-xi0 * wn * t[:400]) * np.sin(wn * np.sqrt(1 - xi0**2) * t[:400])
        q = np.convolve(rng.standard_normal(n_samples), h)[:n_samples]
        y += np.outer(q, rng.standard_normal(n_ch))
    return y + 0.05 * y.std() * rng.standard_normal(y.shape)


def result_fields(res):
    return {k: v for k, v in res.__dict__.items()}


def same_result(r_new, r_old, what):
    d_new, d_old = result_fields(r_new), result_fields(r_old)
    assert list(d_new) == list(d_old), what
    for k in d_new:
        same(d_new[k], d_old[k], f"{what}.{k}")


def run_pair(cls_new, cls_old, params, data, fs, what, sel_freq):
    out = []
    for cls in (cls_new, cls_old):
        alg = cls(run_params=copy.deepcopy(params))
        alg._set_data(data=copy.deepcopy(data), fs=fs)
        r = call(alg.run)
        if r[0] == "ok":
            alg._set_result(r[1])
        out.append((alg, r))
    (a_new, r_new), (a_old, r_old) = out
    assert r_new[0] == r_old[0], (what, r_new, r_old)
    if r_new[0] == "exc":
        assert r_new[1:] == r_old[1:], (what, r_new, r_old)
        return 0
    same_result(r_new[1], r_old[1], what + ".run")
    n_stable = int(r_new[1].Lab.sum())
    # result hand-over to mpe
    for order in ("find_min", 8):
        m_new = call(a_new.mpe, sel_freq=sel_freq, order=order, rtol=5e-2)
        m_old = call(a_old.mpe, sel_freq=sel_freq, order=order, rtol=5e-2)
        assert m_new[0] == m_old[0], (what, m_new, m_old)
        if m_new[0] == "exc":
            assert m_new[1:] == m_old[1:], (what, m_new, m_old)
        same_result(a_new.result, a_old.result, what + ".mpe")
        assert a_new.run_params == a_old.run_params, what
    return n_stable


def check_callers(rng):
    fs = 50.0
    sel = [2.0, 5.5, 9.0]
    y = simulate(rng, 3000, 5, fs)
    ms_raw = [simulate(rng, 3000, 4, fs) for _ in range(2)]
    ms = new_gen.pre_multisetup(ms_raw, [[0, 1], [0, 1]])
    n_stable = 0

    ssi_cfgs = [
        dict(br=10, ordmax=20),
        dict(br=10, ordmax=20, ordmin=6, step=2),
        dict(br=12, ordmax=21, ordmin=3, step=3, ref_ind=[0, 2], sc=dict(err_fn=0.05, err_xi=0.2, err_phi=0.1)),
        dict(br=10, ordmax=16, hc=dict(conj=False, xi_max=0.2, mpc_lim=0.5, mpd_lim=0.5, cov_max=0.3)),
        dict(br=10, ordmax=12, calc_unc=True, nb=10),
        dict(br=10, ordmax=12, sc=dict(err_fn=0.01)),  # missing key -> KeyError in both
    ]
    for i, cfg in enumerate(ssi_cfgs):
        for name in ("SSIdat", "SSIcov"):
            p = new_alg_ssi.SSIRunParams(**cfg)
            n_stable += run_pair(
                getattr(new_alg_ssi, name), getattr(orig_alg_ssi, name), p, y, fs, f"{name}[{i}]", sel
            )
    for i, cfg in enumerate(ssi_cfgs[:2] + ssi_cfgs[5:]):
        for name in ("SSIdat_MS", "SSIcov_MS"):
            p = new_alg_ssi.SSIRunParams(**cfg)
            n_stable += run_pair(
                getattr(new_alg_ssi, name), getattr(orig_alg_ssi, name), p, ms, fs, f"{name}[{i}]", sel
            )

    plscf_cfgs = [
        dict(ordmax=15, nxseg=512),
        dict(ordmax=12, ordmin=4, nxseg=256, method_SD="cor", sc=dict(err_fn=0.05, err_xi=0.3, err_phi=0.1)),
        dict(ordmax=10, ordmin=10, nxseg=256, hc=dict(conj=False, xi_max=0.3, mpc_lim=0.3, mpd_lim=0.8)),
        dict(ordmax=10, nxseg=256, sc=dict(err_fn=0.01, err_xi=0.05)),  # missing key -> KeyError
    ]
    for i, cfg in enumerate(plscf_cfgs):
        p = new_alg_plscf.pLSCFRunParams(**cfg)
        n_stable += run_pair(new_alg_plscf.pLSCF, orig_alg_plscf.pLSCF, p, y, fs, f"pLSCF[{i}]", sel)
        n_stable += run_pair(
            new_alg_plscf.pLSCF_MS, orig_alg_plscf.pLSCF_MS, p, ms, fs, f"pLSCF_MS[{i}]", sel
        )
    assert n_stable > 50, n_stable
    return n_stable


if __name__ == "__main__":
    rng = np.random.default_rng(20261003)
    check_MAC(rng)
    print("MAC: identical")
    n = check_SC_apply(rng)
    print(f"SC_apply: identical ({n} stable labels in the random corpus)")
    n = check_callers(rng)
    print(f"run()/mpe() of SSIdat, SSIcov, SSIdat_MS, SSIcov_MS, pLSCF, pLSCF_MS: identical ({n} stable labels)")
    print(f"{N_CHECKS} comparisons")
    print("PASS")
