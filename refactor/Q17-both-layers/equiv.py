"""
Equivalence check for the C17 refactoring (worktree /tmp/wt/Q17).

Runs the refactored code (src/pyoma2/functions/ssi.py, src/pyoma2/algorithms/ssi.py)
and the pristine HEAD copies (_refactor/orig_functions_ssi.py,
_refactor/orig_algorithms_ssi.py) on the same random inputs and asserts identical
outputs (np.array_equal with equal NaN pattern, same dtype and shape; equal
exception types when the input is rejected).

Run:  cd /tmp/wt/Q17 && PYTHONPATH=/tmp/wt/Q17/src /venv/bin/python _refactor/equiv.py
"""

import importlib.util
import logging
import os
import sys
import warnings

os.environ["TQDM_DISABLE"] = "1"
warnings.filterwarnings("ignore")

import numpy as np  # noqa: E402

HERE = os.path.dirname(os.path.abspath(__file__))
SRC = os.path.join(os.path.dirname(HERE), "src")
if SRC not in sys.path:
    sys.path.insert(0, SRC)

import pyoma2.algorithms.ssi as new_alg  # noqa: E402
import pyoma2.functions.ssi as new_fun  # noqa: E402
from pyoma2.functions import plot as plot_mod  # noqa: E402

logging.disable(logging.CRITICAL)

assert os.path.realpath(new_fun.__file__).startswith(os.path.realpath(SRC)), new_fun.__file__


def _load(name, path):
    spec = importlib.util.spec_from_file_location(name, path)
    mod = importlib.util.module_from_spec(spec)
    sys.modules[name] = mod
    spec.loader.exec_module(mod)
    return mod


orig_fun = _load("pyoma2.functions.orig_ssi", os.path.join(HERE, "orig_functions_ssi.py"))
# the relative import `from .base import BaseAlgorithm` needs the package name
orig_alg = _load("pyoma2.algorithms.orig_ssi", os.path.join(HERE, "orig_algorithms_ssi.py"))
# the pristine calling layer must call the pristine numerical routines
orig_alg.ssi = orig_fun
assert new_alg.ssi is new_fun

# silence tqdm (older versions ignore TQDM_DISABLE)
for _m in (new_fun, orig_fun):
    _m.trange = lambda *a, **k: range(*a)  # noqa: E731
    _m.tqdm = lambda it, *a, **k: it  # noqa: E731

COUNT = {"compared": 0, "exceptions": 0, "inexact": 0}
MAXDEV = [0.0]


# ----------------------------------------------------------------------------
# comparison helpers
# ----------------------------------------------------------------------------
def same(a, b, where):
    """identical: type / dtype / shape / values (NaN == NaN); recursive on sequences"""
    if a is None or b is None:
        assert a is None and b is None, f"{where}: None mismatch {type(a)} {type(b)}"
        return
    if isinstance(a, (list, tuple)):
        assert type(a) is type(b) and len(a) == len(b), f"{where}: container mismatch"
        for k, (x, y) in enumerate(zip(a, b)):
            same(x, y, f"{where}[{k}]")
        return
    if isinstance(a, dict):
        assert isinstance(b, dict) and list(a) == list(b), f"{where}: dict keys"
        for k in a:
            same(a[k], b[k], f"{where}[{k!r}]")
        return
    if isinstance(a, np.ndarray) or isinstance(b, np.ndarray):
        assert isinstance(a, np.ndarray) and isinstance(b, np.ndarray), f"{where}: type"
        assert a.dtype == b.dtype, f"{where}: dtype {a.dtype} vs {b.dtype}"
        assert a.shape == b.shape, f"{where}: shape {a.shape} vs {b.shape}"
        if a.dtype == object:
            assert all(x == y or (x != x and y != y) for x, y in zip(a.ravel(), b.ravel()))
            return
        nan_a, nan_b = np.isnan(a), np.isnan(b)
        assert np.array_equal(nan_a, nan_b), f"{where}: NaN pattern differs"
        if not np.array_equal(a, b, equal_nan=True):
            # not bit-identical: accept only round-off level differences, and report them
            ok = np.allclose(a, b, rtol=1e-12, atol=0.0, equal_nan=True)
            fin = ~nan_a
            dev = np.max(np.abs(a[fin] - b[fin]) / np.maximum(np.abs(b[fin]), 1e-300))
            MAXDEV[0] = max(MAXDEV[0], float(dev))
            COUNT["inexact"] += 1
            assert ok, f"{where}: values differ (max rel dev {dev:.3e})"
        return
    assert type(a) is type(b), f"{where}: type {type(a)} vs {type(b)}"
    if isinstance(a, float) and a != a:
        assert b != b, where
    else:
        assert a == b, f"{where}: {a!r} vs {b!r}"


def both(f_new, f_old, where):
    """call both versions, compare results or exception types; returns the new result"""
    out = []
    for f in (f_new, f_old):
        try:
            out.append(("ok", f()))
        except Exception as e:  # noqa: BLE001
            out.append(("exc", type(e)))
    (k1, r1), (k2, r2) = out
    assert k1 == k2, f"{where}: one version raised, the other did not: {r1!r} / {r2!r}"
    if k1 == "exc":
        assert r1 is r2, f"{where}: different exceptions {r1} / {r2}"
        COUNT["exceptions"] += 1
        return None
    same(r1, r2, where)
    COUNT["compared"] += 1
    return r1


# ----------------------------------------------------------------------------
# input generators
# ----------------------------------------------------------------------------
def simulate(rng, n_ch, n_modes, ndat, fs=50.0, noise=0.05):
    """output of a randomly drawn stochastic state-space model, shape (n_ch, ndat)"""
    f = np.sort(rng.uniform(1.0, 0.4 * fs, n_modes))
    xi = rng.uniform(0.005, 0.03, n_modes)
    lam = np.exp((-xi * 2 * np.pi * f + 1j * 2 * np.pi * f * np.sqrt(1 - xi**2)) / fs)
    A = np.zeros((2 * n_modes, 2 * n_modes))
    for k, z in enumerate(lam):
        A[2 * k : 2 * k + 2, 2 * k : 2 * k + 2] = [[z.real, z.imag], [-z.imag, z.real]]
    C = rng.standard_normal((n_ch, 2 * n_modes))
    x = np.zeros(2 * n_modes)
    Y = np.empty((n_ch, ndat))
    W = rng.standard_normal((ndat, 2 * n_modes))
    for t in range(ndat):
        x = A @ x + W[t]
        Y[:, t] = C @ x
    Y /= Y.std(axis=1, keepdims=True)
    return Y + noise * rng.standard_normal(Y.shape)


def synthetic_hankel(rng, l, r, br, n):  # noqa: E741
    """exact rank-n Hankel matrix of a random system plus a small full-rank part"""
    n2 = max(n // 2, 1)
    f = np.sort(rng.uniform(0.5, 20.0, n2))
    xi = rng.uniform(0.005, 0.05, n2)
    lam = np.exp((-xi * 2 * np.pi * f + 1j * 2 * np.pi * f * np.sqrt(1 - xi**2)) / 50.0)
    A = np.zeros((2 * n2, 2 * n2))
    for k, z in enumerate(lam):
        A[2 * k : 2 * k + 2, 2 * k : 2 * k + 2] = [[z.real, z.imag], [-z.imag, z.real]]
    C = rng.standard_normal((l, 2 * n2))
    G = rng.standard_normal((2 * n2, r))
    p, q = br, br + 1
    H = np.vstack(
        [np.hstack([C @ np.linalg.matrix_power(A, i + j) @ G for j in range(q)]) for i in range(p + 1)]
    )
    return H + 1e-3 * np.linalg.norm(H) / np.sqrt(H.size) * rng.standard_normal(H.shape)


def draw_order(rng, l, r, br, guarded):  # noqa: E741
    """model order 2..8; guarded: not larger than what the Hankel matrix supports"""
    top = 8
    if guarded:
        top = max(2, min(8, br * l, (br + 1) * r))
    return int(rng.integers(2, top + 1))


# ----------------------------------------------------------------------------
# 0. private helpers against the inline code they replace
# ----------------------------------------------------------------------------
def check_helpers(rng):
    for n in range(0, 10):
        Pnn = np.zeros((n**2, n**2))
        for _kk in range(1, n + 1):
            ek = np.zeros((n, 1))
            ek[_kk - 1] = 1
            Pnn[:, (_kk - 1) * n : _kk * n] = np.kron(np.eye(n), ek)
        same(new_fun._perm_matrix(n), Pnn, f"_perm_matrix({n})")
        COUNT["compared"] += 1
    for _ in range(200):
        dt = float(rng.choice([0.01, 0.02, 1 / 50.0, 0.1, 1.0]))
        lam_d = np.array([rng.uniform(0.2, 1.2) * np.exp(1j * rng.uniform(-np.pi, np.pi))])
        lam_c = np.log(lam_d) * (1 / dt)
        jj = 0
        Mat1 = np.array([[1 / (2 * np.pi), 0], [0, 100 / (np.abs(lam_c[jj]) ** 2)]])
        Mat2 = np.array(
            [
                [np.real(lam_c[jj]), np.imag(lam_c[jj])],
                [-(np.imag(lam_c[jj]) ** 2), np.real(lam_c[jj]) * np.imag(lam_c[jj])],
            ]
        )
        Mat3 = np.array(
            [
                [np.real(lam_d[jj]), np.imag(lam_d[jj])],
                [-np.imag(lam_d[jj]), np.real(lam_d[jj])],
            ]
        )
        ref = (
            1
            / (dt * np.abs(lam_d[jj]) ** 2 * np.abs(lam_c[jj]))
            * (np.dot(np.dot(Mat1, Mat2), Mat3))
        )
        same(new_fun._jac_fx_lambda(lam_c[0], lam_d[0], dt), ref, "_jac_fx_lambda")
        COUNT["compared"] += 1


# ----------------------------------------------------------------------------
# 1. numerical routines: SSI_fast and SSI_poles
# ----------------------------------------------------------------------------
def run_chain(mod, H, br, ordmax, step, calc_unc, T, nb, dt):
    fast = mod.SSI_fast(H, br, ordmax, step=step, calc_unc=calc_unc, T=T, nb=nb)
    Obs, A, C, Q1, Q2, Q3, Q4 = fast
    poles = mod.SSI_poles(
        Obs, A, C, ordmax, dt, step=step, calc_unc=calc_unc, Q1=Q1, Q2=Q2, Q3=Q3, Q4=Q4
    )
    return fast, poles


def check_functions(rng):
    n_valid = 0
    # --- synthetic Hankel matrices, random covariance factors with 1..20 columns
    for case in range(60):
        l = int(rng.integers(1, 4))  # noqa: E741
        r = int(rng.integers(1, l + 1))
        br = int(rng.integers(2, 6))
        ordmax = draw_order(rng, l, r, br, guarded=case % 6 != 5)
        ncol = int(rng.integers(1, 21))
        dt = float(rng.choice([0.01, 0.02, 0.05]))
        H = synthetic_hankel(rng, l, r, br, ordmax)
        T = 1e-3 * np.linalg.norm(H) * rng.standard_normal((H.size, ncol))
        where = f"synthetic#{case}(l={l},r={r},br={br},n={ordmax},nb={ncol})"

        # SSI_fast alone
        fast = both(
            lambda: new_fun.SSI_fast(H, br, ordmax, step=1, calc_unc=True, T=T, nb=ncol),
            lambda: orig_fun.SSI_fast(H, br, ordmax, step=1, calc_unc=True, T=T, nb=ncol),
            where + " SSI_fast",
        )
        # SSI_poles alone, both fed with the output of the ORIGINAL SSI_fast
        try:
            Obs, A, C, Q1, Q2, Q3, Q4 = orig_fun.SSI_fast(
                H, br, ordmax, step=1, calc_unc=True, T=T, nb=ncol
            )
        except Exception:  # noqa: BLE001
            Obs = None
        if Obs is not None:
            res = both(
                lambda: new_fun.SSI_poles(Obs, A, C, ordmax, dt, 1, True, Q1, Q2, Q3, Q4),
                lambda: orig_fun.SSI_poles(Obs, A, C, ordmax, dt, 1, True, Q1, Q2, Q3, Q4),
                where + " SSI_poles",
            )
            if res is not None and fast is not None and np.isfinite(res[4][0, ordmax]):
                n_valid += 1
        # whole chain, also without uncertainties / truthy-but-not-True flag / step 2
        for cu, step in ((True, 1), (False, 1), (1, 1), (True, 2), (False, 2)):
            both(
                lambda: run_chain(new_fun, H, br, ordmax, step, cu, T, ncol, dt),
                lambda: run_chain(orig_fun, H, br, ordmax, step, cu, T, ncol, dt),
                where + f" chain(calc_unc={cu!r},step={step})",
            )
        # covariance factor whose number of columns does not match nb
        if case % 6 == 0:
            both(
                lambda: run_chain(new_fun, H, br, ordmax, 1, True, T, ncol + 1, dt),
                lambda: run_chain(orig_fun, H, br, ordmax, 1, True, T, ncol + 1, dt),
                where + " chain(nb mismatch)",
            )
            both(
                lambda: run_chain(new_fun, H, br, ordmax, 1, True, None, ncol, dt),
                lambda: run_chain(orig_fun, H, br, ordmax, 1, True, None, ncol, dt),
                where + " chain(T=None)",
            )

    # --- Hankel matrix and covariance factor estimated from data
    for case in range(24):
        l = int(rng.integers(1, 4))  # noqa: E741
        ref = sorted(rng.choice(l, size=int(rng.integers(1, l + 1)), replace=False).tolist())
        br = int(rng.integers(2, 6))
        ordmax = draw_order(rng, l, len(ref), br, guarded=case % 6 != 5)
        nb = int(rng.integers(2, 21))
        Y = simulate(rng, l, max(ordmax // 2, 1), int(rng.integers(1500, 4000)))
        where = f"data#{case}(l={l},ref={ref},br={br},n={ordmax},nb={nb})"
        HT = both(
            lambda: new_fun.build_hank(Y, Y[ref, :], br, "cov_mm", True, nb),
            lambda: orig_fun.build_hank(Y, Y[ref, :], br, "cov_mm", True, nb),
            where + " build_hank",
        )
        H, T = HT
        res = both(
            lambda: run_chain(new_fun, H, br, ordmax, 1, True, T, nb, 0.02),
            lambda: run_chain(orig_fun, H, br, ordmax, 1, True, T, nb, 0.02),
            where + " chain",
        )
        if res is not None and np.isfinite(res[1][4][0, ordmax]):
            n_valid += 1
    return n_valid


# ----------------------------------------------------------------------------
# 2. calling layer: SSIcov / SSIdat / SSIcov_MS  run, mpe, mpe_from_plot, plot_stab
# ----------------------------------------------------------------------------
RESULT_FIELDS = (
    "Obs A C H Lambds Fn_poles Xi_poles Phi_poles Lab Fn_poles_cov Xi_poles_cov "
    "Phi_poles_cov order_out Fn Xi Phi Fn_cov Xi_cov Phi_cov"
).split()


def result_dict(res):
    return {k: getattr(res, k) for k in RESULT_FIELDS}


class FakeSFP:
    """stands in for the interactive selection window"""

    result = None

    def __init__(self, algo, freqlim=None, plot=None):
        self.seen = (algo.result.Fn_poles, freqlim, plot)
        self.result = FakeSFP.result


class Recorder:
    def __init__(self):
        self.calls = []

    def __call__(self, *args, **kwargs):
        self.calls.append((args, kwargs))
        return "fig", "ax"


def drive(mod, cls_name, data, fs, params, sel, order_list):
    """run + mpe (several orders) + mpe_from_plot + plot_stab; returns everything observed"""
    cls = getattr(mod, cls_name)
    alg = cls(name="x", **params)
    alg._set_data(data=data, fs=fs)
    seen = []
    res = alg.run()
    seen.append(result_dict(res))
    alg._set_result(res)
    for order in order_list:
        try:
            ret = alg.mpe(sel_freq=sel, order=order, rtol=5e-2)
            seen.append(("mpe", ret, result_dict(alg.result), alg.run_params.model_dump()))
        except Exception as e:  # noqa: BLE001
            seen.append(("mpe-exc", type(e), alg.run_params.model_dump()))
    mod.SelFromPlot = FakeSFP
    for order in (order_list[0], order_list[-1], order_list[1]):
        FakeSFP.result = (list(sel), order)
        try:
            ret = alg.mpe_from_plot(freqlim=(0.0, 20.0), rtol=2e-2)
            seen.append(("mfp", ret, result_dict(alg.result), alg.run_params.model_dump()))
        except Exception as e:  # noqa: BLE001
            seen.append(("mfp-exc", type(e), alg.run_params.model_dump()))
    rec = Recorder()
    old = plot_mod.stab_plot
    plot_mod.stab_plot = rec
    try:
        seen.append(alg.plot_stab(freqlim=(0.0, 10.0), hide_poles=False))
    finally:
        plot_mod.stab_plot = old
    (args, kwargs), = rec.calls
    seen.append(("stab_plot", list(args), kwargs))
    return seen


def check_classes(rng):
    fs = 50.0
    n_cov = 0
    for case in range(14):
        n_ch = int(rng.integers(1, 4)) if case < 10 else int(rng.integers(2, 5))
        n_modes = int(rng.integers(1, 4))
        br = int(rng.integers(2, 6))
        Y = simulate(rng, n_ch, n_modes, int(rng.integers(2000, 4000)), fs=fs)
        data = Y.T.copy()
        ref_ind = None
        if case % 2:
            ref_ind = sorted(
                rng.choice(n_ch, size=int(rng.integers(1, n_ch + 1)), replace=False).tolist()
            )
        n_ref = n_ch if ref_ind is None else len(ref_ind)
        ordmax = draw_order(rng, n_ch, n_ref, br, guarded=case % 7 != 6)
        hc = dict(
            conj=bool(case % 3 != 2),
            xi_max=float(rng.choice([0.1, 0.2])),
            mpc_lim=float(rng.choice([0.5, 0.7])),
            mpd_lim=float(rng.choice([0.3, 0.5])),
            cov_max=float(rng.choice([0.2, 1.0, 1e3])),
        )
        params = dict(
            br=br,
            ordmax=ordmax,
            ordmin=int(rng.integers(0, 2)),
            ref_ind=ref_ind,
            hc=hc,
            calc_unc=bool(case % 4 != 3),
            nb=int(rng.integers(2, 21)),
        )
        for cls_name in ("SSIcov", "SSIdat"):
            if cls_name == "SSIdat" and case % 5:
                # uncertainties are rejected by the data-driven Hankel matrix
                params = dict(params, calc_unc=False)
            # frequencies / orders to extract: poles that survive in a pristine run
            sel, good = [3.0], [ordmax]
            try:
                a0 = getattr(orig_alg, cls_name)(name="x", **params)
                a0._set_data(data=data, fs=fs)
                Fp = a0.run().Fn_poles
                good = [int(c) for c in np.where(np.any(~np.isnan(Fp), axis=0))[0]] or good
                col = Fp[:, good[-1]]
                cand = np.unique(col[~np.isnan(col)])
                if cand.size:
                    sel = [float(x) for x in cand[:2]]
            except Exception:  # noqa: BLE001
                pass
            orders = [good[-1], "find_min", [good[-1]] * len(sel), ordmax + 3, 1.5, good[0]]
            where = f"class#{case} {cls_name}({params})"
            out = both(
                lambda: drive(new_alg, cls_name, data, fs, params, sel, orders),
                lambda: drive(orig_alg, cls_name, data, fs, params, sel, orders),
                where,
            )
            if out is not None and cls_name == "SSIcov" and out[0]["Fn_poles_cov"] is not None:
                n_cov += 1

    # multi-setup (calling layer only, shares _validate_poles)
    for case in range(4):
        n_ref, br, ordmax = 2, int(rng.integers(3, 6)), int(rng.integers(2, 5))
        n_modes = 2
        Ys = []
        for _ in range(2):
            Y = simulate(rng, n_ref + 2, n_modes, 3000, fs=fs)
            Ys.append({"ref": Y[:n_ref], "mov": Y[n_ref:]})
        params = dict(br=br, ordmax=ordmax, step=1)
        for cls_name in ("SSIcov_MS", "SSIdat_MS"):
            both(
                lambda: drive(new_alg, cls_name, Ys, fs, params, [3.0], [ordmax, "find_min"]),
                lambda: drive(orig_alg, cls_name, Ys, fs, params, [3.0], [ordmax, "find_min"]),
                f"ms#{case} {cls_name}",
            )

    # mpe before run -> same exception
    for cls_name in ("SSIcov", "SSIcov_MS"):
        both(
            lambda: getattr(new_alg, cls_name)(name="x", br=3, ordmax=4).mpe([1.0], 2),
            lambda: getattr(orig_alg, cls_name)(name="x", br=3, ordmax=4).mpe([1.0], 2),
            f"{cls_name}.mpe before run",
        )
        both(
            lambda: getattr(new_alg, cls_name)(name="x", br=3, ordmax=4).plot_stab(),
            lambda: getattr(orig_alg, cls_name)(name="x", br=3, ordmax=4).plot_stab(),
            f"{cls_name}.plot_stab before run",
        )
    return n_cov


def main():
    rng = np.random.default_rng(20170917)
    check_helpers(rng)
    n_valid = check_functions(rng)
    n_cov = check_classes(rng)
    print(
        f"comparisons with identical results: {COUNT['compared']}, "
        f"with identical exception type: {COUNT['exceptions']}"
    )
    print(f"guarded chains with finite frequency variance at the top order: {n_valid}")
    print(f"SSIcov class runs that delivered Fn_poles_cov: {n_cov}")
    print(
        f"arrays not bit-identical (accepted at rtol 1e-12): {COUNT['inexact']}, "
        f"max relative deviation {MAXDEV[0]:.3e}"
    )
    assert n_valid >= 30, n_valid
    assert n_cov >= 5, n_cov
    print("PASS")


if __name__ == "__main__":
    main()
