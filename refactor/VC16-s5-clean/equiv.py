"""
Differential test: the library as it is on the path (the CLEAN version of the commit)
against the pristine sources saved next to this script (orig_sel_from_plot.py,
orig_ssi.py), on randomly generated pole tables, mouse / key histories and
constructor arguments.

Run:  PYTHONPATH=<tree>/src /venv/bin/python equiv.py
"""
import importlib.util
import logging
import os
import sys
import types
import unittest.mock as um

import matplotlib

matplotlib.use("Agg")
import numpy as np  # noqa: E402

logging.disable(logging.CRITICAL)

import pyoma2.algorithms.ssi as new_ssi  # noqa: E402
import pyoma2.support.sel_from_plot as new_sfp  # noqa: E402
from pyoma2.setup import SingleSetup  # noqa: E402

HERE = os.path.dirname(os.path.abspath(__file__))
Ev = types.SimpleNamespace


def load(modname, filename):
    spec = importlib.util.spec_from_file_location(modname, os.path.join(HERE, filename))
    mod = importlib.util.module_from_spec(spec)
    sys.modules[modname] = mod
    spec.loader.exec_module(mod)
    return mod


old_sfp = load("pyoma2.support.orig_sel_from_plot", "orig_sel_from_plot.py")
old_ssi = load("pyoma2.algorithms.orig_ssi", "orig_ssi.py")
old_ssi.SelFromPlot = old_sfp.SelFromPlot  # the pristine algorithm opens the pristine dialog


# ----------------------------------------------------------------------------
# head-less driving
# ----------------------------------------------------------------------------
def drive(sfp, history, log):
    """Replay a history; record the lists after every action and any exception raised."""
    for a in history:
        kind = a[0]
        try:
            if kind == "shift":
                (sfp.on_key_press if a[1] else sfp.on_key_release)(Ev(key="shift"))
            else:
                ev = Ev(button={"pick": 1, "desel_one": 3, "desel_near": 2}[kind],
                        xdata=a[1], ydata=a[2])
                if sfp.plot == "FDD":
                    sfp.on_click_FDD(ev)
                else:
                    sfp.on_click_SSI(ev, sfp.plot)
            exc = None
        except Exception as e:  # noqa: BLE001
            exc = type(e).__name__
        ind = sfp.freq_ind if sfp.plot == "FDD" else sfp.pole_ind
        marker = (
            np.asarray(sfp.MARKER.get_xdata(), dtype=float).tolist(),
            np.asarray(sfp.MARKER.get_ydata(), dtype=float).tolist(),
        )
        log.append((exc, [float(f) for f in sfp.sel_freq], [int(i) for i in ind], marker))


class _Root:
    pending = None

    def __getattr__(self, name):
        return lambda *a, **k: None

    def mainloop(self):
        history, log = _Root.pending
        drive(_holder["sfp"], history, log)


_holder = {}


def hook(mod):
    orig = mod.SelFromPlot._initialize_gui

    def gui(self):
        _holder["sfp"] = self
        orig(self)

    return um.patch.object(mod.SelFromPlot, "_initialize_gui", gui)


patches = [um.patch("tkinter.Tk", _Root), um.patch("tkinter.Menu")]
for mod in (new_sfp, old_sfp):
    patches += [
        hook(mod),
        um.patch.object(mod, "FigureCanvasTkAgg"),
        um.patch.object(mod, "NavigationToolbar2Tk"),
    ]
for p in patches:
    p.start()


def fake_algo(table, plot, fs):
    table = np.asarray(table, dtype=float)
    if plot == "FDD":
        g = np.random.default_rng(0)
        sval = np.abs(g.normal(size=(2, 2, table.shape[0]))) + 1.0
        return Ev(fs=fs, result=Ev(freq=table, S_val=sval), run_params=Ev())
    lab = np.where(np.isnan(table), np.nan, (table * 7 % 2 > 1).astype(float))
    rp = Ev(ordmin=0, ordmax=table.shape[1] - 1, step=1)
    return Ev(fs=fs, result=Ev(Fn_poles=table, Lab=lab), run_params=rp)


def random_history(rng, fmax, nord, n):
    hist = [("shift", True)] if rng.random() < 0.9 else []
    for _ in range(n):
        k = str(rng.choice(["pick", "pick", "pick", "desel_one", "desel_near", "shift"]))
        if k == "shift":
            hist.append(("shift", bool(rng.integers(0, 2))))
        else:
            x = float(rng.uniform(-0.5, fmax + 0.5))
            if rng.random() < 0.2:
                x = float(np.round(x))  # ties / exact hits
            hist.append((k, x, float(rng.uniform(-1.5, nord + 1.5))))
    return hist


problems = []


def same(a, b):
    """Structural comparison: numbers to rtol 1e-12, everything else exactly."""
    if isinstance(a, (list, tuple)) and isinstance(b, (list, tuple)):
        return len(a) == len(b) and all(same(x, y) for x, y in zip(a, b))
    if a is None or b is None or isinstance(a, str) or isinstance(b, str):
        return a == b
    a, b = np.asarray(a), np.asarray(b)
    return a.shape == b.shape and np.allclose(a, b, rtol=1e-12, atol=0, equal_nan=True)


def open_both(algo, plot, hist, **kw):
    out = []
    for mod in (new_sfp, old_sfp):
        log = []
        _Root.pending = (hist, log)
        try:
            s = mod.SelFromPlot(algo=algo, plot=plot, **kw)
            res = (list(s.result[0]), None if s.result[1] is None else list(s.result[1]))
            extra = (tuple(s.freqlim), bool(s.shift_is_held))
            if plot != "FDD":
                extra += (bool(s.hide_poles), bool(s.show_legend))
            out.append((None, res, extra, log))
        except Exception as e:  # noqa: BLE001
            out.append((type(e).__name__, None, None, log))
    return out


# ----------------------------------------------------------------------------
# 1. the dialog: random tables, histories, frequency limits
# ----------------------------------------------------------------------------
rng = np.random.default_rng(2016)
ncase = 0
for it in range(180):
    plot = ["SSI", "pLSCF", "FDD"][it % 3]
    fs = float(rng.uniform(20, 200))
    if plot == "FDD":
        table = np.linspace(0, fs / 2, int(rng.integers(8, 60)))
        nord = 1
    else:
        nr, nc = int(rng.integers(1, 8)), int(rng.integers(1, 10))
        table = rng.uniform(0.1, fs / 2, size=(nr, nc))
        table[rng.random(table.shape) < 0.35] = np.nan  # whole orders may be empty
        if rng.random() < 0.3:  # the same frequency at several orders
            table[0, :] = table[0, 0] if not np.isnan(table[0, 0]) else 1.0
        nord = nc
    hist = random_history(rng, fs / 2, nord, int(rng.integers(0, 9)))
    kw = {}
    c = it % 5
    if c == 1:
        kw["freqlim"] = (0.0, fs / 4)
    elif c == 2:
        kw["freqlim"] = (1, 4)
    elif c == 3:
        kw["freqlim"] = None
    new, old = open_both(fake_algo(table, plot, fs), plot, hist, **kw)
    ncase += 1
    if not same(new[0], old[0]) or not same(new[1], old[1]) or not same(new[2], old[2]):
        problems.append(f"dialog {plot} #{it}: result {new[:3]} vs {old[:3]}\n  hist={hist}")
    elif not same(new[3], old[3]):
        step = next(i for i, (x, y) in enumerate(zip(new[3], old[3])) if not same(x, y))
        problems.append(
            f"dialog {plot} #{it}: step {step}: {new[3][step]} vs {old[3][step]}\n  hist={hist}"
        )

# ----------------------------------------------------------------------------
# 2. the algorithm layer: SSIcov / SSIdat .mpe_from_plot through the setup
# ----------------------------------------------------------------------------
rs = np.random.default_rng(5)
fs = 50.0
t = np.arange(0, 90, 1 / fs)
sig = np.zeros((t.size, 4))
for k, f in enumerate([2.0, 5.5, 9.0]):
    h = np.exp(-0.02 * 2 * np.pi * f * t[:400]) * np.sin(2 * np.pi * f * t[:400])
    sig += np.outer(np.convolve(rs.normal(size=t.size), h, mode="same"), rs.normal(size=4))
sig += 0.05 * sig.std() * rs.normal(size=sig.shape)

for cls, kwargs in (
    ("SSIcov", dict(br=12, ordmax=24)),
    ("SSIdat", dict(br=10, ordmax=20, ordmin=2)),
    ("SSIcov", dict(br=8, ordmax=16, calc_unc=True, nb=10)),
):
    setups = []
    for mod in (new_ssi, old_ssi):
        ss = SingleSetup(sig.copy(), fs=fs)
        alg = getattr(mod, cls)(name="alg", **kwargs)
        ss.add_algorithms(alg)
        ss.run_by_name("alg")
        setups.append((ss, alg))
    nord = np.asarray(setups[0][1].result.Fn_poles).shape[1]
    for it in range(12):
        hist = random_history(rng, 12.0, nord, int(rng.integers(0, 8)))
        call = [dict(), dict(freqlim=(0, 12)), dict(rtol=5e-2), dict(freqlim=(1.0, 20.0), rtol=1e-3)][
            it % 4
        ]
        outs = []
        for ss, alg in setups:
            log = []
            _Root.pending = (hist, log)
            try:
                ss.mpe_from_plot("alg", **call)
                r = alg.result
                outs.append(
                    (
                        None,
                        [r.Fn, r.Xi, r.Phi, np.asarray(r.order_out, dtype=float)],
                        [r.Fn_cov, r.Xi_cov, r.Phi_cov],
                        log,
                    )
                )
            except Exception as e:  # noqa: BLE001
                outs.append((type(e).__name__, None, None, log))
        ncase += 1
        new, old = outs
        ok = same(new[0], old[0]) and same(new[3], old[3])
        if ok and new[0] is None:
            for x, y in zip(new[1] + new[2], old[1] + old[2]):
                ok = ok and ((x is None and y is None) or same(x, y))
        if not ok:
            problems.append(f"{cls} {kwargs} #{it}: {new[:3]} vs {old[:3]}\n  hist={hist}")

for p in patches:
    p.stop()

if problems:
    print(f"FAIL ({len(problems)} of {ncase} cases differ)")
    for p in problems[:8]:
        print("  " + p[:1500])
    sys.exit(1)
print(f"PASS ({ncase} cases identical)")
