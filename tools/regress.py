#!/usr/bin/env python3
"""Regression over known-bad and known-good variants of the tree (scratch copies only; /repo is never touched):
   regress/   reverse patches of the fix: commits          -> the named property must report VIOLATION
   seeded/    independent seeded breakages                  -> the seed's property must report VIOLATION
   refactor/  independent behaviour-preserving refactorings -> no property may report VIOLATION (exit 2 'undecided' is listed)
usage: regress.py [regress|seeded|refactor ...]"""
import json
import os
import pathlib
import shutil
import subprocess
import sys
import tempfile
from concurrent.futures import ThreadPoolExecutor

V = pathlib.Path(__file__).resolve().parent.parent
CHK = V            # where the checker is run from; a frozen copy when VERIF_SNAPSHOT is set, so that editing /verif meanwhile is harmless
if os.environ.get("VERIF_SNAPSHOT"):
    CHK = pathlib.Path(tempfile.mkdtemp(prefix="vsnap."))
    for n in ("check", "check.py", "properties.jsonl", "known_findings.json"):
        shutil.copy(V / n, CHK / n)
    shutil.copytree(V / "sa", CHK / "sa", ignore=shutil.ignore_patterns("__pycache__"))
    import atexit
    atexit.register(shutil.rmtree, CHK, True)
ALL = [f"C{i:02d}" for i in range(1, 21)]


def run_checks(patch, props):
    d = tempfile.mkdtemp(prefix="regr.")
    try:
        os.makedirs(f"{d}/src")
        shutil.copytree("/repo/src/pyoma2", f"{d}/src/pyoma2")
        r = subprocess.run(f"patch -p1 -s < {patch}", shell=True, cwd=d, capture_output=True, text=True)
        if r.returncode:
            return {"error": "patch does not apply: " + (r.stdout + r.stderr)[:200]}
        out = {}
        env = dict(os.environ, VERIF_SCRATCH="1")

        def one(p):
            rr = subprocess.run([str(CHK / "check"), p, "--root", f"{d}/src/pyoma2"], capture_output=True, text=True, env=env)
            lines = [l.strip()[:260] for l in rr.stdout.splitlines() if l.strip().startswith(("violated:", "ANALYSIS-ERROR"))]
            return p, {0: "silent", 1: "VIOLATION", 2: "undecided"}.get(rr.returncode, str(rr.returncode)), lines[:3]
        with ThreadPoolExecutor(8) as ex:
            for p, v, l in ex.map(one, props):
                out[p] = (v, l)
        return out
    finally:
        shutil.rmtree(d, ignore_errors=True)


def main():
    args = sys.argv[1:]
    kinds = [a for a in args if a in ("regress", "seeded", "refactor")] or ["regress", "seeded", "refactor"]
    only = [a for a in args if a not in ("regress", "seeded", "refactor")]      # name prefixes: run only these entries
    bad = 0
    hard = []           # failures that are never acceptable: a reversed fix not reported, a silent seed, a false alarm
    if "regress" in kinds:
        exp = json.loads((V / "regress" / "expected.json").read_text())
        for f, prop in sorted(exp.items()):
            if f == "comment":
                continue
            r = run_checks(V / "regress" / f, [prop])
            v = r.get(prop, ("error", [r.get("error")]))[0] if "error" not in r else "error"
            print(f"regress {f:14s} {prop}: {v}")
            bad += v != "VIOLATION"
            if v != "VIOLATION":
                hard.append(f"reversed fix {f} is not reported ({v})")
    if "seeded" in kinds:
        for sd in sorted((V / "seeded").iterdir()):
            if not (sd / "meta.json").exists() or (only and not any(sd.name.startswith(o) for o in only)):
                continue
            prop = json.loads((sd / "meta.json").read_text())["property"]
            r = run_checks(sd / "patch.diff", [prop])
            v = r[prop][0] if "error" not in r else "error"
            print(f"seeded  {sd.name:55s} {prop}: {v}")
            bad += v != "VIOLATION"
            if v == "silent":
                hard.append(f"seed {sd.name} passes silently")
    if "refactor" in kinds and (V / "refactor").exists():
        for sd in sorted((V / "refactor").iterdir()):
            if not (sd / "patch.diff").exists() or (only and not any(sd.name.startswith(o) for o in only)):
                continue
            r = run_checks(sd / "patch.diff", ALL)
            if "error" in r:
                print(f"refactor {sd.name}: {r['error']}")
                bad += 1
                continue
            viol = {p: l for p, (v, l) in r.items() if v == "VIOLATION"}
            und = {p: l for p, (v, l) in r.items() if v == "undecided"}
            print(f"refactor {sd.name:20s} false alarms: {sorted(viol) or 'none'}; undecided: {sorted(und) or 'none'}")
            for p, l in list(viol.items()) + list(und.items()):
                for x in l[:2]:
                    print(f"      {p}: {x}")
            bad += len(viol)
            hard.extend(f"false alarm of {p_} on refactoring {sd.name}" for p_ in sorted(viol))
    for h in hard:
        print("HARD FAILURE:", h)
    print("REGRESSION", "OK" if not bad else f"FAILED ({bad}: {len(hard)} hard, the rest undecided seeds)")
    return 1 if bad else 0


if __name__ == "__main__":
    sys.exit(main())
