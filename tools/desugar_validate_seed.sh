#!/bin/bash
# Tool validation for sa/desugar.py on a seeded (defective) tree (executes code: NOT part of any property check).
# usage: desugar_validate_seed.sh Cnn-sxy -> the NORMALISED seeded tree must behave like the seeded tree: the repository's
#        test suite still passes (75 passed) and the seed's demo.py still fails (exit code as on the seeded tree, 0 on the clean tree).
s=$1
V=$(cd "$(dirname "$0")/.." && pwd)
T=$(mktemp -d /tmp/dvs.XXXXXX)
mkdir -p $T/seed/src $T/norm
cp -r /repo/src/pyoma2 $T/seed/src/ && (cd $T/seed && patch -p1 -s < $V/seeded/$s/patch.diff) || { echo "$s PATCH-FAILED"; rm -rf $T; exit 1; }
python3-vt $V/tools/desugar_check.py $T/seed/src $T/norm/src > $T/stats.txt 2>&1 || { echo "$s DESUGAR-FAILED"; tail -3 $T/stats.txt; rm -rf $T; exit 1; }
pt=$(cd /repo && PYTHONPATH=$T/norm/src /venv/bin/python -m pytest -q -p no:cacheprovider --timeout=900 --continue-on-collection-errors 2>&1 | grep -E "passed|failed" | tail -1)
if [ -f $V/seeded/$s/demo.py ]; then
  for k in clean seed norm; do
    case $k in clean) pp=/repo/src;; seed) pp=$T/seed/src;; norm) pp=$T/norm/src;; esac
    (cd $T && PYTHONPATH=$pp timeout 900 /venv/bin/python $V/seeded/$s/demo.py > $T/demo_$k.txt 2>&1; echo $? > $T/rc_$k)
  done
  echo "$s pytest: $pt | demo exit: clean=$(cat $T/rc_clean) seeded=$(cat $T/rc_seed) normalised=$(cat $T/rc_norm)"
else
  echo "$s pytest: $pt | no demo"
fi
rm -rf $T
