#!/usr/bin/env python3
"""Import / re-evaluate seeded breakages.

  seedtool.py import <worktree> <seed-id> <property> [--needs "..."]   confirm a sub-agent's change and store it under /verif/seeded/<seed-id>/
  seedtool.py eval [<seed-id> ...]                                       run the quick checks against every stored seed (scratch copy, never /repo)

Confirmation (import): on a fresh scratch worktree of /repo HEAD (outside /repo and /verif, removed afterwards)
  1. the patch applies; 2. the pinned test suite still gives 75 passed; 3. demo.py exits != 0 with the patch and 0 without.
Evaluation: the patch is applied to a scratch copy of src/pyoma2 and `./check <prop> --root <copy>` is run with VERIF_SCRATCH=1.
"""
import json
import os
import pathlib
import shutil
import subprocess
import sys
import tempfile

VERIF = pathlib.Path(__file__).resolve().parent.parent
SEEDED = VERIF / "seeded"
PY = "/venv/bin/python"
ALL = [f"C{i:02d}" for i in range(1, 21)]


def sh(cmd, cwd=None, env=None, timeout=900):
    e = dict(os.environ)
    e.update(env or {})
    r = subprocess.run(cmd, shell=True, cwd=cwd, env=e, capture_output=True, text=True, timeout=timeout)
    return r.returncode, r.stdout + r.stderr


def scratch_tree():
    d = tempfile.mkdtemp(prefix="seedchk.")
    rc, out = sh(f"git -C /repo worktree add -q --detach {d}/wt HEAD")
    if rc:
        raise SystemExit(out)
    return d


def drop_tree(d):
    sh(f"git -C /repo worktree remove --force {d}/wt")
    shutil.rmtree(d, ignore_errors=True)


def confirm(patch, demo):
    d = scratch_tree()
    wt = f"{d}/wt"
    res = {}
    try:
        env = {"PYTHONPATH": f"{wt}/src"}
        rc, out = sh(f"{PY} {demo}", cwd=wt, env=env, timeout=600)
        res["demo_without_change"] = {"exit": rc, "tail": out.strip().splitlines()[-3:]}
        rc, out = sh(f"git -C {wt} apply {patch}")
        res["patch_applies"] = rc == 0
        if rc:
            res["apply_error"] = out
            return res
        rc, out = sh(f"{PY} -m pytest -q -p no:cacheprovider --timeout=900 --continue-on-collection-errors 2>&1 | tail -1", cwd=wt, env=env)
        res["tests_with_change"] = out.strip()
        rc, out = sh(f"{PY} {demo}", cwd=wt, env=env, timeout=600)
        res["demo_with_change"] = {"exit": rc, "tail": out.strip().splitlines()[-3:]}
    finally:
        drop_tree(d)
    res["confirmed"] = bool(res.get("patch_applies") and "75 passed" in res.get("tests_with_change", "") and res["demo_without_change"]["exit"] == 0
                            and res["demo_with_change"]["exit"] != 0)
    return res


def evaluate(seed_dir, props=None):
    meta = json.loads((seed_dir / "meta.json").read_text())
    props = props or [meta["property"]]
    d = tempfile.mkdtemp(prefix="seedeval.")
    out = {}
    try:
        os.makedirs(f"{d}/src")
        shutil.copytree("/repo/src/pyoma2", f"{d}/src/pyoma2")
        rc, o = sh(f"patch -p1 -s < {seed_dir / 'patch.diff'}", cwd=d)
        if rc:
            return {"error": "patch does not apply to the current tree: " + o[:200]}
        for p in props:
            rc, o = sh(f"{VERIF}/check {p} --root {d}/src/pyoma2", env={"VERIF_SCRATCH": "1"})
            lines = [l.strip() for l in o.splitlines() if l.strip().startswith(("violated:", "ANALYSIS-ERROR")) ]
            out[p] = {"exit": rc, "verdict": {0: "silent", 1: "VIOLATION", 2: "undecided"}.get(rc, str(rc)), "lines": lines[:4]}
    finally:
        shutil.rmtree(d, ignore_errors=True)
    return out


def main():
    a = sys.argv[1:]
    if not a:
        print(__doc__)
        return 2
    if a[0] in ("import", "import2"):
        wt, sid, prop = a[1], a[2], a[3]
        needs = a[a.index("--needs") + 1] if "--needs" in a else ""
        if a[0] == "import2":
            # round 2: two changes per worktree, delivered as _seed/<sub>/patch.diff (the worktree itself is left clean)
            sub = a[4]
            src = pathlib.Path(wt) / "_seed" / sub
            dst = SEEDED / sid
            dst.mkdir(parents=True, exist_ok=True)
            diff = (src / "patch.diff").read_text()
            # keep source changes only
            keep, on = [], False
            for line in diff.splitlines(keepends=True):
                if line.startswith("diff --git"):
                    on = " b/src/" in line
                if on:
                    keep.append(line)
            (dst / "patch.diff").write_text("".join(keep))
        else:
            src = pathlib.Path(wt) / "_seed"
            dst = SEEDED / sid
            dst.mkdir(parents=True, exist_ok=True)
            # always regenerate the patch from the worktree (source files only)
            rc, diff = sh(f"git -C {wt} diff -- src")
            (dst / "patch.diff").write_text(diff)
        shutil.copy(src / "demo.py", dst / "demo.py")
        if (src / "notes.md").exists():
            shutil.copy(src / "notes.md", dst / "notes.md")
        res = confirm(dst / "patch.diff", dst / "demo.py")
        meta = {"id": sid, "property": prop, "origin": "independent sub-agent given only the property text and a scratch worktree",
                "needs_to_manifest": needs, "confirmation": res,
                "ran": ["git apply patch.diff on a fresh scratch worktree of /repo HEAD", "pinned pytest command (75 passed expected)",
                        "demo.py with and without the patch (PYTHONPATH=<tree>/src /venv/bin/python demo.py)"]}
        (dst / "meta.json").write_text(json.dumps(meta, indent=1))
        print(json.dumps(res, indent=1))
        if not res.get("confirmed"):
            print("NOT CONFIRMED - seed kept for inspection, mark or delete it")
            return 1
        ev = evaluate(dst, ALL if "--all" in a else None)
        meta["checks"] = ev
        (dst / "meta.json").write_text(json.dumps(meta, indent=1))
        print(json.dumps(ev, indent=1))
        return 0
    if a[0] == "eval":
        ids = [x for x in a[1:] if not x.startswith("--")] or sorted(p.name for p in SEEDED.iterdir() if (p / "meta.json").exists())
        allp = "--all" in a
        summary = {}
        for sid in ids:
            sd = SEEDED / sid
            meta = json.loads((sd / "meta.json").read_text())
            ev = evaluate(sd, ALL if allp else None)
            meta["checks"] = ev if not allp else meta.get("checks", {})
            if allp:
                meta["checks_all_properties"] = {k: v["verdict"] for k, v in ev.items()}
            (sd / "meta.json").write_text(json.dumps(meta, indent=1))
            summary[sid] = {k: v["verdict"] for k, v in ev.items() if v.get("verdict") != "silent" or k == meta["property"]} if "error" not in ev else ev
        print(json.dumps(summary, indent=1))
        return 0
    print(__doc__)
    return 2


if __name__ == "__main__":
    sys.exit(main())
