#!/bin/bash
# Tool validation for sa/desugar.py (executes code: NOT part of any property check).
# usage: desugar_validate.sh Unn  -> the repository's test suite and the refactoring's own equivalence harness
#        (refactor/Unn-dataflow/harness.tgz: equiv.py + pristine copies) run on the NORMALISED refactored tree,
#        laid out at /tmp/wt/Unn where the harness expects it.  Expected: "75 passed" and "PASS".
n=$1
W=/tmp/wt/$n
V=$(cd "$(dirname "$0")/.." && pwd)
rm -rf $W /tmp/rs/$n; mkdir -p $W/src $W/_refactor /tmp/rs/$n/src
cp -r /repo/src/pyoma2 /tmp/rs/$n/src/ && (cd /tmp/rs/$n && patch -p1 -s < $V/refactor/$n-dataflow/patch.diff)
tar xzf $V/refactor/$n-dataflow/harness.tgz -C $W/_refactor
python3-vt $V/tools/desugar_check.py /tmp/rs/$n/src $W/src > $W/stats.txt 2>&1 || { echo "$n DESUGAR-FAILED"; tail -3 $W/stats.txt; exit 1; }
( cd /repo && PYTHONPATH=$W/src /venv/bin/python -m pytest -q -p no:cacheprovider --timeout=900 --continue-on-collection-errors 2>&1 | grep -E "passed|failed" | tail -1 ) > $W/pytest.txt
( cd $W && EQUIV_QUICK=1 PYTHONPATH=$W/src timeout 1500 /venv/bin/python _refactor/equiv.py 2>&1 | tail -4 ) > $W/equiv.txt
echo "$n pytest: $(cat $W/pytest.txt) | equiv: $(tail -1 $W/equiv.txt | cut -c1-150)"
