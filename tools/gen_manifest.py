#!/usr/bin/env python3
"""Regenerates /verif/MANIFEST.json from the table below (kept next to the checks so they stay in step)."""
import json
import os
import pathlib
import sys

HERE = pathlib.Path(__file__).resolve().parent.parent
sys.path.insert(0, str(HERE))

BASE = ("cd /repo && /venv/bin/python -m pytest -ra -q -p no:cacheprovider --timeout=900 "
        "--continue-on-collection-errors")

TRUST = ("Python's ast module parses the same language the interpreter runs; the resolved program model (imports, MRO, "
         "self/super dispatch) of sa/program.py; for degree rules the numpy/scipy transfer table of sa/absint.py (each entry a "
         "homogeneity fact, listed per run under coverage.trusted_base); floating point is not modelled.")

# property -> (technique, text, design_ref)
CLAIMS = {}
NA = {}


def claim(pid, technique, text, ref):
    CLAIMS[pid] = (technique, text, ref)


def na(pid, reason):
    NA[pid] = reason


from tools.claims import register  # noqa: E402

register(claim, na)

checks = []
for pid in sorted(CLAIMS):
    tech, text, ref = CLAIMS[pid]
    checks.append({
        "property_id": pid,
        "quick_cmd": f"./check {pid} --tier quick",
        "thorough_cmd": f"./check {pid} --tier thorough",
        "evidence_file": f"/verif/evidence/{pid}.json",
        "replay_cmd_template": "./check --replay {path}",
        "engine": "sa",
        "level_claimed": {"category": "other", "text": text, "design_ref": ref},
        "level_note": TRUST,
        "technique": tech,
    })

man = {
    "version": 1,
    "setup_cmd": "./check --selfcheck",
    "hooks": {
        "guard": "PYOMA2_VERIF",
        "enable": "none needed: the checks only parse /repo/src/pyoma2 with ast; no source file reads the guard variable",
        "baseline_off_cmd": BASE,
        "source_commits": [],
        "add_only": True,
    },
    "engines": [
        {"name": "sa", "path": "/verif/sa", "serves_properties": sorted(CLAIMS),
         "kind_free_text": "repository-specific static analysis over Python ast: resolved program model, abstract interpreter in a "
                           "homogeneity-degree/unit domain, symbolic index evaluation, taint/def-use and structural rules; pure stdlib"},
    ],
    "checks": checks,
    "not_applicable": [{"property_id": p, "reason": r} for p, r in sorted(NA.items())],
    "notes": "Static analysis only: nothing under /repo is imported or executed by a check. exit 0 holds / 1 VIOLATION / 2 ANALYSIS-ERROR "
             "(undecided or anchor lost). Known findings (genuine defects not repaired) are in /verif/known_findings.json; fix: commits in "
             "/repo are listed there as status=fixed.",
}
(HERE / "MANIFEST.json").write_text(json.dumps(man, indent=1) + "\n")
print("wrote MANIFEST.json:", len(checks), "checks,", len(NA), "not applicable")
