"""behaviour-preserving rewrites applied to EVERY function of the package (one kind at a time): the checks must stay silent.
usage: metamorph.py <kind> <src root> <dst root>"""
import ast, sys, shutil, pathlib, copy

kind, src, dst = sys.argv[1], pathlib.Path(sys.argv[2]), pathlib.Path(sys.argv[3])
if dst.exists():
    shutil.rmtree(dst)
shutil.copytree(src, dst)

ARG = {"argmin", "argmax", "nanargmin", "nanargmax"}


class IntArg(ast.NodeTransformer):
    """int(np.argmin(..)) around every arg-reduction that is not already wrapped"""
    def visit_Call(self, n):
        self.generic_visit(n)
        if isinstance(n.func, ast.Attribute) and n.func.attr in ARG and isinstance(n.func.value, ast.Name) and n.func.value.id == "np" and len(n.args) == 1 and not n.keywords:
            return ast.Call(func=ast.Name(id="int", ctx=ast.Load()), args=[n], keywords=[])
        return n

    def visit_Subscript(self, n):
        return n        # not inside subscripts with axis= results (arrays)


class DotToMatmul(ast.NodeTransformer):
    """np.dot(a, b) -> a @ b  (2-D operands in this package)"""
    def visit_Call(self, n):
        self.generic_visit(n)
        if isinstance(n.func, ast.Attribute) and n.func.attr == "dot" and isinstance(n.func.value, ast.Name) and n.func.value.id == "np" and len(n.args) == 2 and not n.keywords:
            return ast.BinOp(left=n.args[0], op=ast.MatMult(), right=n.args[1])
        return n


class ParamAlias(ast.NodeTransformer):
    """def f(p, ..): p_ = p; <body with p_ for p>  for parameters that are never re-bound"""
    def visit_FunctionDef(self, fn):
        self.generic_visit(fn)
        params = [a.arg for a in fn.args.posonlyargs + fn.args.args + fn.args.kwonlyargs if a.arg not in ("self", "cls")]
        stored = {x.id for x in ast.walk(fn) if isinstance(x, ast.Name) and isinstance(x.ctx, (ast.Store, ast.Del))}
        nested = [x for x in ast.walk(fn) if isinstance(x, (ast.FunctionDef, ast.Lambda)) and x is not fn]
        if nested or any(isinstance(x, (ast.Global, ast.Nonlocal)) for x in ast.walk(fn)):
            return fn
        pick = [p for p in params if p not in stored][:2]
        if not pick:
            return fn
        body = fn.body
        doc = []
        if body and isinstance(body[0], ast.Expr) and isinstance(body[0].value, ast.Constant) and isinstance(body[0].value.value, str):
            doc, body = [body[0]], body[1:]
        ren = {p: p + "_in" for p in pick}

        class R(ast.NodeTransformer):
            def visit_Name(self, x):
                if x.id in ren and isinstance(x.ctx, ast.Load):
                    return ast.copy_location(ast.Name(id=ren[x.id], ctx=ast.Load()), x)
                return x
        new = [R().visit(s) for s in body]
        pre = [ast.Assign(targets=[ast.Name(id=ren[p], ctx=ast.Store())], value=ast.Name(id=p, ctx=ast.Load())) for p in pick]
        fn.body = doc + pre + new
        return fn


class AsarrayEntry(ast.NodeTransformer):
    """X = np.asarray(X) at the entry of module-level functions for parameters that are subscripted in the body (arrays)"""
    def visit_FunctionDef(self, fn):
        params = [a.arg for a in fn.args.posonlyargs + fn.args.args if a.arg not in ("self", "cls")]
        if fn.name.startswith("__") or any(isinstance(d, ast.Name) and d.id in ("property", "staticmethod", "classmethod") for d in fn.decorator_list):
            return fn
        sub = {x.value.id for x in ast.walk(fn) if isinstance(x, ast.Subscript) and isinstance(x.value, ast.Name)}
        attr = {x.value.id for x in ast.walk(fn) if isinstance(x, ast.Attribute) and isinstance(x.value, ast.Name) and x.attr in ("shape", "T", "conj", "reshape")}
        isnone = {x.left.id for x in ast.walk(fn) if isinstance(x, ast.Compare) and isinstance(x.left, ast.Name) and any(isinstance(c, ast.Constant) and c.value is None for c in x.comparators)}
        isinst = {c.args[0].id for c in ast.walk(fn) if isinstance(c, ast.Call) and isinstance(c.func, ast.Name) and c.func.id == "isinstance" and c.args and isinstance(c.args[0], ast.Name)}
        pick = [p for p in params if p in sub and p in attr and p not in isnone and p not in isinst][:2]
        if not pick:
            return fn
        body = fn.body
        doc = []
        if body and isinstance(body[0], ast.Expr) and isinstance(body[0].value, ast.Constant) and isinstance(body[0].value.value, str):
            doc, body = [body[0]], body[1:]
        pre = [ast.Assign(targets=[ast.Name(id=p, ctx=ast.Store())],
                          value=ast.Call(func=ast.Attribute(value=ast.Name(id="np", ctx=ast.Load()), attr="asarray", ctx=ast.Load()), args=[ast.Name(id=p, ctx=ast.Load())], keywords=[])) for p in pick]
        fn.body = doc + pre + body
        return fn


class EarlyReturn(ast.NodeTransformer):
    """if c: <A...; return x> else: <B...; return y>  ->  if c: A; return x \n B; return y   (and the reverse is left alone)"""
    def visit_FunctionDef(self, fn):
        self.generic_visit(fn)
        new = []
        for s in fn.body:
            if isinstance(s, ast.If) and s.orelse and s.body and isinstance(s.body[-1], ast.Return) and isinstance(s.orelse[-1], ast.Return) and s is fn.body[-1]:
                new.append(ast.If(test=s.test, body=s.body, orelse=[]))
                new.extend(s.orelse)
            else:
                new.append(s)
        fn.body = new
        return fn


class KwArgs(ast.NodeTransformer):
    """f(a, b, c) -> f(a, b, c=c) is not generally possible; instead: positional -> keyword for calls of package functions whose
    parameter names are known here (same module)"""
    def __init__(self, sigs):
        self.sigs = sigs

    def visit_Call(self, n):
        self.generic_visit(n)
        name = n.func.id if isinstance(n.func, ast.Name) else None
        if name in self.sigs and not any(isinstance(a, ast.Starred) for a in n.args) and len(n.args) > 2:
            ps = self.sigs[name]
            if len(n.args) <= len(ps):
                keep, move = n.args[:2], n.args[2:]
                n.keywords = [ast.keyword(arg=ps[2 + i], value=a) for i, a in enumerate(move)] + n.keywords
                n.args = keep
        return n


class RenameLocals(ast.NodeTransformer):
    """every local variable of a function (not a parameter, not a global, not used by a nested function) gets another name"""
    def visit_FunctionDef(self, fn):
        params = {a.arg for a in fn.args.posonlyargs + fn.args.args + fn.args.kwonlyargs} | ({fn.args.vararg.arg} if fn.args.vararg else set()) | ({fn.args.kwarg.arg} if fn.args.kwarg else set())
        if any(isinstance(x, (ast.FunctionDef, ast.Lambda, ast.ClassDef, ast.Global, ast.Nonlocal)) for x in ast.walk(fn) if x is not fn):
            return fn
        if any(isinstance(x, ast.Call) and isinstance(x.func, ast.Name) and x.func.id in ("locals", "vars", "eval", "exec") for x in ast.walk(fn)):
            return fn
        stored = {x.id for x in ast.walk(fn) if isinstance(x, ast.Name) and isinstance(x.ctx, (ast.Store, ast.Del))} - params
        stored = {n for n in stored if not n.startswith("_") and n not in ("self", "cls")}
        ren = {n: n + "_loc" for n in stored}

        class R(ast.NodeTransformer):
            def visit_Name(self, x):
                if x.id in ren:
                    return ast.copy_location(ast.Name(id=ren[x.id], ctx=x.ctx), x)
                return x
        fn.body = [R().visit(s_) for s_ in fn.body]
        return fn


class IfSwap(ast.NodeTransformer):
    """if c: A else: B  ->  if not c: B else: A   (two-armed ifs without elif)"""
    def visit_If(self, n):
        self.generic_visit(n)
        if n.orelse and not (len(n.orelse) == 1 and isinstance(n.orelse[0], ast.If)):
            t = n.test.operand if isinstance(n.test, ast.UnaryOp) and isinstance(n.test.op, ast.Not) else ast.UnaryOp(op=ast.Not(), operand=n.test)
            return ast.If(test=t, body=n.orelse, orelse=n.body)
        return n


class CompareFlip(ast.NodeTransformer):
    """a < b -> b > a (single comparisons of the ordering kind)"""
    def visit_Compare(self, n):
        self.generic_visit(n)
        flip = {ast.Lt: ast.Gt, ast.Gt: ast.Lt, ast.LtE: ast.GtE, ast.GtE: ast.LtE}
        if len(n.ops) == 1 and type(n.ops[0]) in flip:
            return ast.Compare(left=n.comparators[0], ops=[flip[type(n.ops[0])]()], comparators=[n.left])
        return n


class FloatEntry(ast.NodeTransformer):
    """dt = float(dt) at the entry of module-level functions for the scalar options"""
    NAMES = {"dt", "fs", "pov", "rtol", "DF", "DF1", "DF2", "err_fn", "err_xi", "err_phi", "max_damp", "mpc_lim", "mpd_lim", "max_cov", "MAClim"}

    def visit_FunctionDef(self, fn):
        params = [a.arg for a in fn.args.posonlyargs + fn.args.args if a.arg in self.NAMES]
        stored = {x.id for x in ast.walk(fn) if isinstance(x, ast.Name) and isinstance(x.ctx, (ast.Store, ast.Del))}
        isnone = {x.left.id for x in ast.walk(fn) if isinstance(x, ast.Compare) and isinstance(x.left, ast.Name) and any(isinstance(c, ast.Constant) and c.value is None for c in x.comparators)}
        pick = [p for p in params if p not in stored and p not in isnone]
        if not pick or any(isinstance(d, ast.Name) and d.id == "property" for d in fn.decorator_list):
            return fn
        body = fn.body
        doc = []
        if body and isinstance(body[0], ast.Expr) and isinstance(body[0].value, ast.Constant) and isinstance(body[0].value.value, str):
            doc, body = [body[0]], body[1:]
        pre = [ast.Assign(targets=[ast.Name(id=p, ctx=ast.Store())], value=ast.Call(func=ast.Name(id="float", ctx=ast.Load()), args=[ast.Name(id=p, ctx=ast.Load())], keywords=[])) for p in pick]
        fn.body = doc + pre + body
        return fn


REDUCERS = {"sum", "mean", "max", "min", "std", "var", "any", "all", "argmax", "argmin", "nanmax", "nanmin", "nanmean", "prod", "cumsum", "amax", "amin", "flip"}


class AxisPositional(ast.NodeTransformer):
    """np.sum(x, axis=k) -> np.sum(x, k)  (axis is the second parameter of these numpy functions)"""
    def visit_Call(self, n):
        self.generic_visit(n)
        if isinstance(n.func, ast.Attribute) and isinstance(n.func.value, ast.Name) and n.func.value.id == "np" and n.func.attr in REDUCERS \
                and len(n.args) == 1 and len(n.keywords) == 1 and n.keywords[0].arg == "axis":
            n.args = [n.args[0], n.keywords[0].value]
            n.keywords = []
        return n


class AxisKeyword(ast.NodeTransformer):
    """np.sum(x, k) -> np.sum(x, axis=k)"""
    def visit_Call(self, n):
        self.generic_visit(n)
        if isinstance(n.func, ast.Attribute) and isinstance(n.func.value, ast.Name) and n.func.value.id == "np" and n.func.attr in REDUCERS \
                and len(n.args) == 2 and not n.keywords:
            n.keywords = [ast.keyword(arg="axis", value=n.args[1])]
            n.args = [n.args[0]]
        return n


class Range0(ast.NodeTransformer):
    """range(n) -> range(0, n)"""
    def visit_Call(self, n):
        self.generic_visit(n)
        if isinstance(n.func, ast.Name) and n.func.id == "range" and len(n.args) == 1 and not n.keywords:
            n.args = [ast.Constant(value=0), n.args[0]]
        return n


class MethodForm(ast.NodeTransformer):
    """x.T -> np.transpose(x); x.conj() -> np.conj(x); x.real / x.imag -> np.real(x) / np.imag(x) (loads only)"""
    def visit_Attribute(self, n):
        self.generic_visit(n)
        if isinstance(n.ctx, ast.Load) and n.attr == "T":
            return ast.Call(func=ast.Attribute(value=ast.Name(id="np", ctx=ast.Load()), attr="transpose", ctx=ast.Load()), args=[n.value], keywords=[])
        return n

    def visit_Call(self, n):
        self.generic_visit(n)
        if isinstance(n.func, ast.Attribute) and n.func.attr in ("conj", "conjugate") and not n.args and not n.keywords \
                and not (isinstance(n.func.value, ast.Name) and n.func.value.id == "np"):
            return ast.Call(func=ast.Attribute(value=ast.Name(id="np", ctx=ast.Load()), attr="conj", ctx=ast.Load()), args=[n.func.value], keywords=[])
        return n


class ReturnVar(ast.NodeTransformer):
    """return <expr>  ->  out_ = <expr>; return out_   (for returns of calls / operations / tuples)"""
    def visit_FunctionDef(self, fn):
        self.generic_visit(fn)
        if any(isinstance(x, (ast.Yield, ast.YieldFrom)) for x in ast.walk(fn)):
            return fn

        def rewrite(body):
            out = []
            for s in body:
                for fld in ("body", "orelse", "finalbody"):
                    if isinstance(getattr(s, fld, None), list) and not isinstance(s, (ast.FunctionDef, ast.ClassDef, ast.AsyncFunctionDef)):
                        setattr(s, fld, rewrite(getattr(s, fld)))
                for h in getattr(s, "handlers", None) or []:
                    h.body = rewrite(h.body)
                if isinstance(s, ast.Return) and isinstance(s.value, (ast.Call, ast.BinOp, ast.Tuple, ast.Subscript)):
                    out.append(ast.Assign(targets=[ast.Name(id="out_", ctx=ast.Store())], value=s.value))
                    out.append(ast.Return(value=ast.Name(id="out_", ctx=ast.Load())))
                else:
                    out.append(s)
            return out
        fn.body = rewrite(fn.body)
        return fn


class ArgTemp(ast.NodeTransformer):
    """x = f(g(a), b)  ->  t_ = g(a); x = f(t_, b)   (first positional argument of a statement-level call, when it is itself a call)"""
    def visit_FunctionDef(self, fn):
        self.generic_visit(fn)
        k = [0]

        def rewrite(body):
            out = []
            for s in body:
                for fld in ("body", "orelse", "finalbody"):
                    if isinstance(getattr(s, fld, None), list) and not isinstance(s, (ast.FunctionDef, ast.ClassDef, ast.AsyncFunctionDef)):
                        setattr(s, fld, rewrite(getattr(s, fld)))
                for h in getattr(s, "handlers", None) or []:
                    h.body = rewrite(h.body)
                v = s.value if isinstance(s, (ast.Assign, ast.Expr)) else None
                if isinstance(v, ast.Call) and v.args and isinstance(v.args[0], ast.Call) and isinstance(v.func, (ast.Name, ast.Attribute)) \
                        and not any(isinstance(z, (ast.Call, ast.Subscript)) for z in ast.walk(v.func)) \
                        and not any(isinstance(z, (ast.Lambda, ast.NamedExpr, ast.Starred)) for z in ast.walk(v.args[0])) \
                        and not (isinstance(v.func, ast.Name) and v.func.id in ("super", "isinstance")):
                    k[0] += 1
                    t = f"t{k[0]}_"
                    out.append(ast.Assign(targets=[ast.Name(id=t, ctx=ast.Store())], value=v.args[0]))
                    v.args = [ast.Name(id=t, ctx=ast.Load())] + v.args[1:]
                out.append(s)
            return out
        if not any(isinstance(x, (ast.FunctionDef, ast.Lambda, ast.ClassDef)) for x in ast.walk(fn) if x is not fn):
            fn.body = rewrite(fn.body)
        return fn


class Ternary(ast.NodeTransformer):
    """if c: x = a else: x = b  ->  x = a if c else b"""
    def visit_If(self, n):
        self.generic_visit(n)
        if len(n.body) == 1 and len(n.orelse) == 1 and all(isinstance(s, ast.Assign) and len(s.targets) == 1 and isinstance(s.targets[0], ast.Name) for s in (n.body[0], n.orelse[0])) \
                and n.body[0].targets[0].id == n.orelse[0].targets[0].id:
            return ast.Assign(targets=[n.body[0].targets[0]], value=ast.IfExp(test=n.test, body=n.body[0].value, orelse=n.orelse[0].value))
        return n


class CompToLoop(ast.NodeTransformer):
    """x = [e for v in it if c]  ->  x = []; for v_c in it: if c: x.append(e)   (statement-level, one generator, fresh loop names)"""
    def visit_FunctionDef(self, fn):
        self.generic_visit(fn)
        if any(isinstance(x, (ast.FunctionDef, ast.Lambda, ast.ClassDef)) for x in ast.walk(fn) if x is not fn):
            return fn

        def rewrite(body):
            out = []
            for s in body:
                for fld in ("body", "orelse", "finalbody"):
                    if isinstance(getattr(s, fld, None), list) and not isinstance(s, (ast.FunctionDef, ast.ClassDef, ast.AsyncFunctionDef)):
                        setattr(s, fld, rewrite(getattr(s, fld)))
                if isinstance(s, ast.Assign) and len(s.targets) == 1 and isinstance(s.targets[0], ast.Name) and isinstance(s.value, ast.ListComp) \
                        and len(s.value.generators) == 1 and not s.value.generators[0].is_async \
                        and not any(isinstance(z, (ast.ListComp, ast.GeneratorExp, ast.DictComp, ast.SetComp, ast.Lambda, ast.NamedExpr)) for z in ast.walk(s.value) if z is not s.value) \
                        and not any(isinstance(z, ast.Name) and z.id == s.targets[0].id for z in ast.walk(s.value)):
                    g = s.value.generators[0]
                    tn = {z.id for z in ast.walk(g.target) if isinstance(z, ast.Name)}
                    ren = {a: a + "_c" for a in tn}

                    class R(ast.NodeTransformer):
                        def visit_Name(self, x):
                            return ast.copy_location(ast.Name(id=ren[x.id], ctx=x.ctx), x) if x.id in ren else x
                    inner = [ast.Expr(value=ast.Call(func=ast.Attribute(value=ast.Name(id=s.targets[0].id, ctx=ast.Load()), attr="append", ctx=ast.Load()), args=[R().visit(s.value.elt)], keywords=[]))]
                    for c in reversed(g.ifs):
                        inner = [ast.If(test=R().visit(c), body=inner, orelse=[])]
                    out.append(ast.Assign(targets=[s.targets[0]], value=ast.List(elts=[], ctx=ast.Load())))
                    out.append(ast.For(target=R().visit(g.target), iter=g.iter, body=inner, orelse=[]))
                else:
                    out.append(s)
            return out
        fn.body = rewrite(fn.body)
        return fn


class NumpyName(ast.NodeTransformer):
    """np.<f> -> numpy.<f> in every function body (module gets `import numpy`)"""
    def visit_Attribute(self, n):
        self.generic_visit(n)
        if isinstance(n.value, ast.Name) and n.value.id == "np":
            n.value = ast.Name(id="numpy", ctx=ast.Load())
        return n


def add_wrappers(tree):
    """def f(a, b=1): <body>  ->  def _f_core(a, b=1): <body>;  def f(a, b=1): return _f_core(a, b)   (module-level functions)"""
    new = []
    for s in tree.body:
        if isinstance(s, ast.FunctionDef) and not s.decorator_list and not s.name.startswith("_") and not s.args.vararg and not s.args.kwarg \
                and not any(isinstance(x, (ast.Yield, ast.YieldFrom)) for x in ast.walk(s)):
            core = copy.deepcopy(s)
            core.name = f"_{s.name}_core"
            doc = [s.body[0]] if s.body and isinstance(s.body[0], ast.Expr) and isinstance(s.body[0].value, ast.Constant) and isinstance(s.body[0].value.value, str) else []
            if doc:
                core.body = core.body[1:] or [ast.Pass()]
            call = ast.Call(func=ast.Name(id=core.name, ctx=ast.Load()),
                            args=[ast.Name(id=a.arg, ctx=ast.Load()) for a in s.args.posonlyargs + s.args.args],
                            keywords=[ast.keyword(arg=a.arg, value=ast.Name(id=a.arg, ctx=ast.Load())) for a in s.args.kwonlyargs])
            s.body = doc + [ast.Return(value=call)]
            new.extend([core, s])
        else:
            new.append(s)
    tree.body = new
    return tree


class Commute(ast.NodeTransformer):
    """a * b -> b * a  (numbers and arrays: element-wise product; sequence repetition is symmetric too)"""
    def visit_BinOp(self, n):
        self.generic_visit(n)
        if isinstance(n.op, ast.Mult) and not any(isinstance(z, (ast.Constant,)) and isinstance(z.value, str) for z in (n.left, n.right)):
            n.left, n.right = n.right, n.left
        return n


class KwReorder(ast.NodeTransformer):
    """f(a, x=1, y=2) -> f(a, y=2, x=1)"""
    def visit_Call(self, n):
        self.generic_visit(n)
        if len(n.keywords) > 1 and all(k.arg for k in n.keywords):
            n.keywords = list(reversed(n.keywords))
        return n


class LenShape(ast.NodeTransformer):
    """x.shape[0] -> len(x)   (loads; arrays of at least one dimension)"""
    def visit_Subscript(self, n):
        self.generic_visit(n)
        if isinstance(n.ctx, ast.Load) and isinstance(n.value, ast.Attribute) and n.value.attr == "shape" and isinstance(n.slice, ast.Constant) and n.slice.value == 0:
            return ast.Call(func=ast.Name(id="len", ctx=ast.Load()), args=[n.value.value], keywords=[])
        return n


class NoneForm(ast.NodeTransformer):
    """if x is None: x = d   ->   x = d if x is None else x"""
    def visit_If(self, n):
        self.generic_visit(n)
        if not n.orelse and len(n.body) == 1 and isinstance(n.body[0], ast.Assign) and len(n.body[0].targets) == 1 and isinstance(n.body[0].targets[0], ast.Name) \
                and isinstance(n.test, ast.Compare) and len(n.test.ops) == 1 and isinstance(n.test.ops[0], ast.Is) and isinstance(n.test.left, ast.Name) \
                and n.test.left.id == n.body[0].targets[0].id and isinstance(n.test.comparators[0], ast.Constant) and n.test.comparators[0].value is None:
            x = n.test.left.id
            return ast.Assign(targets=[ast.Name(id=x, ctx=ast.Store())], value=ast.IfExp(test=n.test, body=n.body[0].value, orelse=ast.Name(id=x, ctx=ast.Load())))
        return n


class AttrLocal(ast.NodeTransformer):
    """rp_ = self.run_params at the entry of a method, the body reading rp_.<field> (methods that never assign self.run_params)"""
    def visit_FunctionDef(self, fn):
        if not fn.args.args or fn.args.args[0].arg != "self" or any(isinstance(x, (ast.FunctionDef, ast.Lambda)) for x in ast.walk(fn) if x is not fn):
            return fn
        uses = [x for x in ast.walk(fn) if isinstance(x, ast.Attribute) and x.attr == "run_params" and isinstance(x.value, ast.Name) and x.value.id == "self"]
        if len(uses) < 2 or any(isinstance(x.ctx, (ast.Store, ast.Del)) for x in uses):
            return fn
        # calls on self may replace the attribute: only methods that call nothing on self before the last use
        if any(isinstance(c, ast.Call) and isinstance(c.func, ast.Attribute) and isinstance(c.func.value, ast.Name) and c.func.value.id == "self" for c in ast.walk(fn)):
            return fn
        if any(isinstance(c, ast.Call) and isinstance(c.func, ast.Name) and c.func.id in ("setattr", "super") for c in ast.walk(fn)):
            return fn

        class R(ast.NodeTransformer):
            def visit_Attribute(self, x):
                self.generic_visit(x)
                if x.attr == "run_params" and isinstance(x.value, ast.Name) and x.value.id == "self" and isinstance(x.ctx, ast.Load):
                    return ast.copy_location(ast.Name(id="rp_", ctx=ast.Load()), x)
                return x
        body = fn.body
        doc = []
        if body and isinstance(body[0], ast.Expr) and isinstance(body[0].value, ast.Constant) and isinstance(body[0].value.value, str):
            doc, body = [body[0]], body[1:]
        pre = ast.Assign(targets=[ast.Name(id="rp_", ctx=ast.Store())], value=ast.Attribute(value=ast.Name(id="self", ctx=ast.Load()), attr="run_params", ctx=ast.Load()))
        fn.body = doc + [pre] + [R().visit(s_) for s_ in body]
        return fn


SUBMODS = {("scipy", "signal"), ("scipy", "linalg"), ("scipy", "optimize"), ("scipy", "interpolate"), ("scipy", "stats"), ("scipy", "fft"), ("numpy", "linalg"), ("numpy", "fft")}


def import_style(tree):
    """from scipy import signal -> import scipy.signal as signal"""
    new = []
    for s in tree.body:
        if isinstance(s, ast.ImportFrom) and s.level == 0 and s.module and all((s.module, a.name) in SUBMODS for a in s.names):
            for a in s.names:
                new.append(ast.Import(names=[ast.alias(name=f"{s.module}.{a.name}", asname=a.asname or a.name)]))
        else:
            new.append(s)
    tree.body = new
    return tree


class InTuple(ast.NodeTransformer):
    """x in ["a", "b"] -> x in ("a", "b")   (membership tests against a list display of constants)"""
    def visit_Compare(self, n):
        self.generic_visit(n)
        if len(n.ops) == 1 and isinstance(n.ops[0], (ast.In, ast.NotIn)) and isinstance(n.comparators[0], ast.List) \
                and all(isinstance(e, ast.Constant) for e in n.comparators[0].elts):
            n.comparators = [ast.Tuple(elts=n.comparators[0].elts, ctx=ast.Load())]
        return n


class NotNone(ast.NodeTransformer):
    """x is not None -> not (x is None)"""
    def visit_Compare(self, n):
        self.generic_visit(n)
        if len(n.ops) == 1 and isinstance(n.ops[0], ast.IsNot) and isinstance(n.comparators[0], ast.Constant) and n.comparators[0].value is None:
            return ast.UnaryOp(op=ast.Not(), operand=ast.Compare(left=n.left, ops=[ast.Is()], comparators=n.comparators))
        return n


def str_constants(tree):
    """method == "cov_mm" -> method == _S_COV_MM with `_S_COV_MM = "cov_mm"` at module level (strings compared with == / != at least twice)"""
    counts = {}
    for n in ast.walk(tree):
        if isinstance(n, ast.Compare) and len(n.ops) == 1 and isinstance(n.ops[0], (ast.Eq, ast.NotEq)) and isinstance(n.comparators[0], ast.Constant) \
                and isinstance(n.comparators[0].value, str) and n.comparators[0].value.isidentifier():
            counts[n.comparators[0].value] = counts.get(n.comparators[0].value, 0) + 1
    names = {v: "_S_" + v.upper() for v, c in counts.items() if c >= 2}
    if not names:
        return tree

    class R(ast.NodeTransformer):
        def visit_Compare(self, n):
            self.generic_visit(n)
            if len(n.ops) == 1 and isinstance(n.ops[0], (ast.Eq, ast.NotEq)) and isinstance(n.comparators[0], ast.Constant) and n.comparators[0].value in names:
                n.comparators = [ast.Name(id=names[n.comparators[0].value], ctx=ast.Load())]
            return n
    tree = R().visit(tree)
    k = 0
    while k < len(tree.body) and (isinstance(tree.body[k], (ast.Import, ast.ImportFrom)) or (isinstance(tree.body[k], ast.Expr) and isinstance(tree.body[k].value, ast.Constant))):
        k += 1
    for v, nm in sorted(names.items()):
        tree.body.insert(k, ast.Assign(targets=[ast.Name(id=nm, ctx=ast.Store())], value=ast.Constant(value=v)))
    return tree


for p in sorted(dst.rglob("*.py")):
    if "plot" in p.name or "pyvista" in p.name or "mpl" in p.name:
        continue
    tree = ast.parse(p.read_text())
    if kind == "intarg":
        tree = IntArg().visit(tree)
    elif kind == "matmul":
        tree = DotToMatmul().visit(tree)
    elif kind == "alias":
        tree = ParamAlias().visit(tree)
    elif kind == "asarray":
        tree = AsarrayEntry().visit(tree)
    elif kind == "early":
        tree = EarlyReturn().visit(tree)
    elif kind == "rename":
        tree = RenameLocals().visit(tree)
    elif kind == "ifswap":
        tree = IfSwap().visit(tree)
    elif kind == "cmpflip":
        tree = CompareFlip().visit(tree)
    elif kind == "floatin":
        tree = FloatEntry().visit(tree)
    elif kind == "axispos":
        tree = AxisPositional().visit(tree)
    elif kind == "axiskw":
        tree = AxisKeyword().visit(tree)
    elif kind == "range0":
        tree = Range0().visit(tree)
    elif kind == "methodform":
        if any(isinstance(s, ast.Import) and any(a.name == "numpy" and a.asname == "np" for a in s.names) for s in tree.body):
            tree = MethodForm().visit(tree)
    elif kind == "retvar":
        tree = ReturnVar().visit(tree)
    elif kind == "argtmp":
        tree = ArgTemp().visit(tree)
    elif kind == "ternary":
        tree = Ternary().visit(tree)
    elif kind == "comp2loop":
        tree = CompToLoop().visit(tree)
    elif kind == "npname":
        if any(isinstance(s, ast.Import) and any(a.name == "numpy" and a.asname == "np" for a in s.names) for s in tree.body):
            tree = NumpyName().visit(tree)
            k_ = next(i for i, s in enumerate(tree.body) if isinstance(s, ast.Import) and any(a.name == "numpy" for a in s.names))
            tree.body.insert(k_ + 1, ast.Import(names=[ast.alias(name="numpy")]))
    elif kind == "wrapper":
        if p.parent.name == "functions":
            tree = add_wrappers(tree)
    elif kind == "commute":
        tree = Commute().visit(tree)
    elif kind == "kwreorder":
        tree = KwReorder().visit(tree)
    elif kind == "lenshape":
        tree = LenShape().visit(tree)
    elif kind == "noneform":
        tree = NoneForm().visit(tree)
    elif kind == "attrlocal":
        tree = AttrLocal().visit(tree)
    elif kind == "importstyle":
        tree = import_style(tree)
    elif kind == "intuple":
        tree = InTuple().visit(tree)
    elif kind == "notnone":
        tree = NotNone().visit(tree)
    elif kind == "strconst":
        tree = str_constants(tree)
    elif kind == "kwargs":
        sigs = {f.name: [a.arg for a in f.args.posonlyargs + f.args.args] for f in tree.body if isinstance(f, ast.FunctionDef) and not f.args.vararg}
        tree = KwArgs(sigs).visit(tree)
    ast.fix_missing_locations(tree)
    p.write_text(ast.unparse(tree) + "\n")
print("ok", kind)
