#!/usr/bin/env python3
"""Tool validation for sa/desugar.py (not a property check): writes the normalised package next to a copy of the
tree so that the repository's test suite / an equivalence harness can be executed on it.
usage: desugar_check.py <dir containing pyoma2> <outdir>      -> <outdir>/pyoma2 (normalised sources)"""
import ast
import pathlib
import shutil
import sys

sys.path.insert(0, str(pathlib.Path(__file__).resolve().parent.parent))
from sa import desugar  # noqa: E402


def main():
    src, out = pathlib.Path(sys.argv[1]), pathlib.Path(sys.argv[2])
    if (out / "pyoma2").exists():
        shutil.rmtree(out / "pyoma2")
    shutil.copytree(src / "pyoma2", out / "pyoma2")
    root = out / "pyoma2"
    trees, paths = {}, {}
    for p in sorted(root.rglob("*.py")):
        parts = list(p.relative_to(root).with_suffix("").parts)
        if parts and parts[-1] == "__init__":
            parts = parts[:-1]
        nm = ".".join(["pyoma2"] + parts)
        trees[nm] = ast.parse(p.read_text())
        paths[nm] = p
    st = desugar.desugar(trees)
    for nm, t in trees.items():
        ast.fix_missing_locations(t)
        paths[nm].write_text(ast.unparse(t) + "\n")
    print(st)


if __name__ == "__main__":
    main()
