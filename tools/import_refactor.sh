#!/bin/sh
# usage: tools/import_refactor.sh <worktree> <id>  -- stores an independent behaviour-preserving refactoring under /verif/refactor/<id>/
set -e
WT=$1; ID=$2; D=/verif/refactor/$ID
mkdir -p $D
git -C $WT diff -- src > $D/patch.diff
for f in equiv.py notes.md; do [ -f $WT/_refactor/$f ] && cp $WT/_refactor/$f $D/ || true; done
echo "stored $D ($(grep -c '^[-+][^-+]' $D/patch.diff) changed lines)"
