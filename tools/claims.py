"""Per-property claim texts for MANIFEST.json (what the static check decides, in my own words)."""

STRUCT = ("Structural clauses only: necessary conditions of the property, decided from the source for all inputs/configurations at once; "
          "the numerical clauses (accuracy, tolerances, floating point) are NOT decided by this family - see DESIGN.md 4 and 6. ")

DEG = "abstract interpretation in a homogeneity-degree/unit domain"
IDX = "symbolic index/polynomial evaluation over the ast"
STR = "resolved-ast structural rules (def-use, flow-sensitive expansion)"
SEQ = "symbolic sequence interpretation (row order as a canonical term)"
BLK = "channel-group typing of block matrices"
WIN = "window domain for block-Hankel/Toeplitz matrices (polynomial bounds)"

CLAIMS = {
    "C01": (f"{IDX} + {STR}",
            "Shift-invariance structure of the three realisation routines (one matrix, one shift = channel count, up/down roles, QR or pinv form, "
            "C = first block), one truncation index per order, SSI_poles slot discipline, and the normal form of the z->s pole map; all as polynomial/"
            "structural identities valid for every block-row and channel count.  Calling layer (shared with C09): the pole tables of SSI_poles reach the result table of the same kind (value provenance), hard-criteria limits are bound to the parameters of their names, criterion masks are applied as boolean selections. Does not decide that identified values equal the system's. The Hankel builders for the two methods the property names (shared with C12): one lag per block with uniform weights, br+1 block rows/columns, the data-driven matrix cut from the LQ factor below the past rows. ac2mp: mode shapes = C times the RIGHT eigenvectors and the eigenvector slots handed on are (left, right), read off the output layout of the eigen-solver for the left= setting in force. A contiguous block taken in place of the listed reference channels must be guarded by an element-wise comparison with the ramp. The shift of the observability matrix is the ROW extent of the Hankel matrix over br+1 (a shift taken from the column extent - the number of reference channels - is a violation)."),
    "C02": (f"{DEG} + {SEQ} + {STR}",
            "merge_mode_shapes is homogeneous of degree 1 in the first setup's scale and 0 in every other setup's (the factor is applied in the right "
            "direction), MSF(a,b) ~ b/a, merged Fn/Xi are means over the setup axis and their dispersion a population std divided by the mean; row-order "
            "signature agreement with the name flattening.  Mode shapes reach the merge and are merged without a cast to a real dtype. Optimality on noisy shapes and complex factors are not decided. Reference lists that pass through a validating helper keep their listed order (no sort / unique / set between the argument and what is stored)."),
    "C03": (f"{DEG} + {IDX} + {SEQ}",
            "SSI_multi_setup re-bases every setup on the first setup's reference block: the global observability matrix is homogeneous in the first "
            "setup's gain alone for cov_mm/cov_R/dat, hence poles independent of per-setup amplitudes; reference/roving index maps and block interleaving "
            "as index identities.  The split is re-applied to the dataset list that is current after every preprocessing step. Exact identification is not decided. Shortcut rule: a slice taken in place of the listed reference channels needs a guard that compares the list element by element with the ramp of the slice. The index list the reference channels are selected with is still in listed order (no sort / unique on the way from the argument to the selection; complements are exempt)."),
    "C04": (f"{DEG} + {BLK} + {STR}",
            "Every block of the merged PreGER spectrum has the support of the mean reference block (transmissibility of degree 0 in its setup's gain); "
            "nxseg/method/pov reach the estimator and scipy; the returned grid is the estimator's; typed block structure of the merged matrix (rows = references then every setup's roving sensors, "
            "columns = references, each roving block = S_mov,ref . inv(S_ref,ref) . mean S_ref,ref, no product/stack of mismatching channel groups). "
            "Equality with the single-setup matrix is not decided. An option with a falsy legitimate value (pov = 0) is not dropped on the way through option dictionaries filled by conditional stores; the estimator's window resolves to 'hann' when the library's defaults are left alone. A merged matrix that is allocated first and filled block of rows by block of rows is typed like the stacked one (consecutive row ranges, running counter); a transmissibility written with solve on swapped axes is reduced to its normal form (an inverse that comes out transposed is a violation)."),
    "C05": (f"{DEG} + {STR}",
            "z->s map normal form of ac2mp_poly (sibling of ssi.ac2mp), joint blanking of unstable eigenvalues and eigenvector columns, dimensionless basis "
            "function, coefficient degrees (alpha ~ 1, beta ~ S), NaN padding of the four tables. basis function sampled on Nf lines from 0 to Nyquist inclusive (rational identity on the grid spacing).  Constraint block: alpha = [I ; X] / [X ; I] with the identity at the constrained end, un-permuted. pLSCF.result: pole tables of the same kind as returned by pLSCF_poles, every criterion reaches them, masks used as boolean selections. Normal equations/companion form correctness not decided. run() hands plscf.pLSCF the basis-function sign of the estimator in the run parameters (-1 periodogram, +1 correlogram). No module-level table and no memoised value (functools.lru_cache) is changed in place by the identification (out=, item stores, augmented assignments). With its other options at their defaults plscf.pLSCF still builds the basis function from the sign it is handed (a defaulted option that overrides the sign makes the argument dead)."),
    "C06": (STR,
            "Band limits on one grid, first/second singular-value ratio over one slice, arg-max selection, slice-origin re-basing of the picked line for "
            "frequency and vector alike, dominant vector, writer/reader agreement on the singular-vector layout. hand-over of result.S_val/S_vec/freq and of THIS call's band from FDD.mpe / mpe_from_plot to FDD_mpe (stale attribute reads are violations). MAC=1 and unitarity are not decided. The first stage of EFDD/FSDD (the same peak search) is given the DF1 of the call on the stored spectrum and grid; methods are judged per exact algorithm class. The returned frequencies are not stored in a table that takes its dtype from the selected frequencies as the caller typed them."),
    "C07": (DEG,
            "The array handed to the inverse FFT (the SDOF bell) has degree 1 in the spectral matrix for EFDD and FSDD, Fn/Xi have degree 0 in it and the "
            "right time unit; no dimensional log/exp. Closed forms of the logarithmic-decrement fit; hand-over of spectrum, grid, dt, estimator and this call's DF1/DF2/fit parameters from EFDD.mpe / mpe_from_plot (through helpers and **kwargs); no rounding of dimensional quantities. The 2.5 %/15 % accuracy is not decided. EFDD_mpe and its helpers change none of their array arguments in place - also through helpers that hand back (a view of) their argument; no table with a caller-typed dtype."),
    "C08": (f"{DEG} + def-use rule",
            "For all 30 algorithm/method configurations every run()/mpe() output is a homogeneous function of the data gain (degree 0) and of the time "
            "unit (frequencies 1/s, damping/shapes 1), no decision on the way is scale dependent, each normalisation divides a vector by its own "
            "largest-magnitude component.  Extraction through mpe() of the SSI classes at explicit orders (int and per-mode list) is part of the degree analysis (a closeness band in absolute units is a violation). Permutation/rotation equivariance is not decided. Time-unit clause, FDD family: the half-widths (quantities in Hz) and selected frequencies of a request are the ones the extraction works with (not the default, not those of an earlier request). Shortcut rule for reference-channel selections; every routine reachable from run/mpe hands its options to helpers that repeat them with the same default. No algorithm hands out a kept intermediate (Hankel matrix) computed from data that has been replaced since (validity test vs attributes the kept value depends on)."),
    "C09": ("dependence/taint interpretation + structural rules",
            "Each criterion of the run-parameter defaults reaches every pole table of the result (all six classes, criteria enabled), all tables share one "
            "criteria set, hc keys are bound to the implementing parameters, the keep-conditions have the stated sense, applymask keeps/NaNs correctly. "
            "every applymask call binds the filtered tables back to the variables they came from, position by position.  Value provenance: every result table holds the numbers of the table of the same kind returned by the pole routine; integer 0/1 masks are never inverted with ~ or used as an index. Behaviour within 1e-9 of a threshold is not decided. A falsy limit set by the user is not replaced by a fallback (`x or default`); criteria are handed over by name, not in the order of the user's dictionary."),
    "C10": (f"{STR} + {IDX}",
            "SC_apply compares with the previous order, matches the nearest pole in frequency with one index for all three quantities, tests each relative "
            "difference strictly against its own tolerance joined by and, loops over range(ordmin, ordmax+1, step), skips the first column, writes only "
            "0/1 into a fresh array; every run() hands sc[err_fn|err_xi|err_phi] to the tolerance parameter of the same name;  readers compare labels only with values the writer produces; the tables handed to SC_apply carry every criterion of the tables stored in the result (labels computed from the final tables). The conditions are judged on the index-level model of SC_apply (loops and vectorised forms alike). The tolerances reach SC_apply by name (not in the order of the user's `sc` dictionary). The labelling is skipped for column 0 only (a test on the order index), not for the first iteration of the loop over range(ordmin, ..) (a test on a value carried over)."),
    "C11": (STR,
            "SSI_mpe/pLSCF_mpe (int, list, find_min): closeness test against the loop's own frequency, all values of a mode from one (row, column) with "
            "column = requested order and row = nearest pole, appends guarded by the test, slots fed by the table of the same kind, first-qualifying-order "
            "scan, and the hand-over in the four mpe methods. Absolute-vs-relative band of find_min and pLSCF's find_min loop are not decided. An option (rtol) the extraction routine shares with a helper by name and default is handed to it wherever the helper's result that depends on it is used; no table with a caller-typed dtype."),
    "C12": (f"{WIN} + {DEG}",
            "Lag/length/weight/bounds of every block of the Hankel (cov_mm, dat) and Toeplitz (cov_R) matrices as polynomial identities in (br, channels, "
            "record length): lag i+c+1 resp. br+i-c, equal lengths, uniform weights, windows inside the record, br+1 x br+1 blocks, all-channel rows and "
            "reference columns, R-factor block of the dat method; bilinearity by degree analysis. the method given in the run parameters (class default only as fallback) reaches the Hankel builder. Block stacks built by sliding-window views or index-grid gathers are followed; a reversal of all rows of a block stack (channels reversed inside the blocks) is a violation. The projection identity is not decided. The routine is analysed for both ways the references can be given (as an array, as a list of channel numbers): a count taken before the reference rows are selected is a violation. Shortcut rule for contiguous reference blocks. Also analysed with the reference list handed in place of the data matrix, when a caller in the package does so: a selection through a boolean mask made from the list (ascending order, listed order lost) is a violation."),
    "C13": (f"{DEG} + {STR}",
            "Frequency grid unit and spacing, bilinearity of the spectral matrix in (data, reference data), operand pairing/axes of the csd calls (fixes the "
            "(i,j) pairing and the conjugation convention), overlap/segment/window keywords. every run() that calls SD_est hands it run_params.nxseg / method_SD / pov and its own dt - through helpers and option dictionaries; an option dropped by a truthiness filter (pov = 0.0) is a violation. Welch equivalence and tolerances are not decided. The estimators change no module-level table in place (an estimate does not depend on the options of earlier calls). A periodogram that cuts its own segments moves on by nperseg - noverlap = nxseg - nxseg*pov (stride expressed in SD_est's parameters through every helper). Option dictionaries spread into the csd call are written out: an overlap handed over only when pov is truthy is a violation (scipy's default is 50 %)."),
    "C14": (f"{DEG} (inductive invariants per mutator) + {STR}",
            "The representation invariant (dt*fs=1, duration = samples*dt, counts = extents of the stored arrays, data = split(stored datasets)) is established "
            "by the constructors and preserved by every mutator from an arbitrary invariant state, hence after every call sequence; post-conditions of "
            "decimate/detrend/filter/rollback/add_algorithms; keywords the user did not give reach scipy with scipy's own defaults, axis = 0 observed at the abstract call, no rounding (//, int, round) of a dimensional quantity; kwargs forwarding (no truth-test default on a user option); the reference/roving split keeps the listed order and is re-applied to the current dataset list; no in-place effect on user or initial arrays. The preprocessing methods change no module-level or class-level table in place. Tables of defaults whose entries are dictionaries are followed through .get()/[k]: an entry taken out and stored into is a change of the module-level table. Shortcut rule for the split. A setup method that keeps a designed filter on the instance hands it out only while the sampling frequency it was designed for is current (key, or discarded by every method that replaces fs)."),
    "C15": (f"{STR} over the resolved call graph",
            "Gate order in run_by_name, _pre_run conditions, every mpe/mpe_from_plot override gated before its first store, no in-place effect on shared "
            "data and no nondeterministic source in any function reachable from run/mpe, fresh result objects, instance-only state, PoSER validation "
            "structure (ValueError only, count guard, checked yields, eager exhaustion), exact (not isinstance) type comparison; picklable instance attributes. No in-place effect on the instance's run/mpe parameters (through aliases, shallow copies, helpers) and none on module-level or class-level containers in any function reachable from run/mpe; the PoSER type comparison ranges over every algorithm of every setup (no zip with the names, no slice). Memoised values (lru_cache) count as shared state; Model.model_validate(obj) is not a new object when obj is kept in a container of the instance. Kept results (memo methods) vs replaced attributes; no in-place operation on a local array that is also known by another local name."),
    "C16": (STR,
            "Per dialog variant: the frequency list and its partner list receive the same mutation in every block of every reachable method (so pairs "
            "survive any click sequence), no list arithmetic, pick = nearest order then nearest retained pole, deselect-nearest by frequency, result tuple. The result tuple made before the dialog runs follows the selection only if no handler replaces the lists it holds (rebinding vs in-place update). Attributes holding the click position are read by a handler (directly or in a helper) only after this event's position was stored into them; insertions at the same position keep the lists in step."),
    "C17": (f"{IDX} + {STR}",
            "Vectorisation order of the covariance factor vs the Kronecker forms of the propagation, orientation of the singular-vector selections, block "
            "estimate scaling as a polynomial identity, 1/sqrt(nb(nb-1)) scaling, variance slot; order-n part of the sensitivity blocks by the Kronecker selection (not a leading-rows slice); result.Fn_poles_cov receives the frequency variances of the pole routine. Equality with a directional derivative is not decided. No factor / sensitivity block is transposed on the strength of one of its extents (a square one that is already right would be turned)."),
    "C18": (f"{DEG} + {STR}",
            "Degree 0 of MAC/MPC/MPD/MCF in each argument's real scale and MSF ~ b/a; every arccos argument clipped, sqrt arguments sums of squares, "
            "per-component quotients guarded (finite, never NaN); MAC row/column/normaliser pairing. isclose(x, 0) on a scaled quantity is a scale-dependent decision; vectorised normalisers (outer products) oriented rows = first set; MPD uses one right singular vector (also when taken as a whole row); the MAC band filter of the EFDD bell is scale-free in the reference shape. Bounds and complex-factor invariance not decided. No option of a library call inside the indicator functions is dropped by a truth test (axis=0). MAC normalisers are one number per shape (a reduction over the sensor axis), not one for the whole set (np.vdot, sum/norm without axis). No in-place normalisation of a prepared copy that is re-used for the second set (the same object operated on twice)."),
    "C19": (f"{STR} + {SEQ}",
            "Forward presence analysis of the sheet dictionary (every optional-sheet read guarded), zero-basing list covers all index sheets, re-indexing by "
            "the flattened sensor names of what is returned, GeometryN built keyword by keyword from the validated tables (linked through the sheet names), ValueError-only validation, attribute compatibility with the documented argument types; plot_mode (geo2) draws markers, lines and surfaces at the displaced points (through any helper); the cell-wise substitution of dfphi_map_func is dtype-safe."),
    "C20": (STR,
            "Signature conformance of every call into functions.plot, keyword binding of result fields, one flatten order with a consistent order-axis "
            "formula scaled by step, label selections with NaN fill for frequency and damping alike, CMIF curves relative to the first singular value's maximum; the plot methods forward their own freqlim / hide_poles arguments. The tables the diagrams read carry every hard criterion (no marker for a rejected pole), dependence analysis shared with C09. A branch that draws nothing is chosen by a test that looks at every label for which a sibling branch draws markers. The diagram routines change no memoised value in place (an order axis kept by a cache and scaled with *=)."),
}


ROUND7 = {
    "C01": " The maximum order is the caller's, or lowered only to what the matrices support: min(rows of the shifted observability matrix, columns of H) - a tighter clamp in a validation helper drops orders the property asks for.",
    "C05": " The reduced normal equations as far as the code shows them (anchor rule: Ro = Xo^H Xo, So = Xo^H Yo, To = Yo^H Yo, M += To - So^H Ro^-1 So over the reference rows, Yo = -kron(basis row, spectrum column)); an assembly written another way is undecided, not passed.",
    "C06": " FDD_mpe and what it calls change none of their array arguments in place: result.S_val / S_vec are the same decomposition after mpe as before.",
    "C08": " np.isclose with the default absolute tolerance (1e-8) on a quantity that carries the data unit is a scale-dependent decision.",
    "C09": " No `<setting> or <default>` on the criteria dictionaries between run_params and the criteria (0 / False are settings).",
    "C11": " A selection by the closeness mask is not guarded by the mask accepting nothing (`not close.any()`): rejected modes would be kept whenever one mode passes.",
    "C12": " Records scaled once ahead of the windows, record identity tests, and the world in which the reference records have the shape of the data (every channel listed in another order) are analysed as well.",
    "C14": " No iteration over the datasets takes options out of a dictionary that is one object for all iterations (pop with a fixed key, itself or in a helper).",
    "C16": " The lists the dialog mutates in place are built by the dialog (not taken over from a mutable default / module-level object shared by all dialogs); a read inside a callable handed to a helper is judged where the helper calls it.",
    "C18": " Sets made unit length before the product: every shape divided by its own length (a norm without axis belongs to the whole set).",
    "C19": " The new column labels of the constraint table ARE the sensor names (an expression that merely mentions them, such as the table's own columns followed by the missing sensors, is a recognised different order).",
}


ROUND8 = {
    "C05": " The identification hands the basis-function sign (and its other options) to every helper that repeats them with the same default.",
    "C09": " A limit that passes min / max / clip between run_params and the criterion leaves the binding undecided (the admissible range is not judged).",
    "C10": " Orders iterated as a prepared list of columns or (previous, current) pairs: the order left out is column 0 by value, not the first element of the list.",
    "C13": " SD_est and what it calls change none of their array arguments in place (also through reshape views).",
    "C17": " The propagation changes no memoised selection / commutation matrix in place.",
    "C19": " A table the validation normalises (fillna, reindex, zero-basing) is returned in that form, not read again raw from the dictionary.",
}


ROUND9 = {
    "C15": " A check before `yield setup` that reads the leftover variable of an earlier loop concerns the last element of that loop, not the setup.",
    "C17": " No in-place operation on an array or a basic-slice view of it that is read again under its other name (the singular vectors used by the propagation).",
    "C19": " Re-ordering by position (`table.to_numpy()[table.index.get_indexer(names)]`) is read; the reverse call used as gather index is its inverse.",
}


def register(claim, na):
    for pid, (tech, text) in CLAIMS.items():
        text = text + ROUND7.get(pid, "") + ROUND8.get(pid, "") + ROUND9.get(pid, "")
        claim(pid, tech, STRUCT + text, f"DESIGN.md 4 ({pid})")
