"""Per-property claim texts for MANIFEST.json (what the static check decides, in my own words)."""

STRUCT = "Structural clauses only (necessary conditions of the property, decided for all inputs/configurations at once from the source); the numerical clauses are not decided by this family - see DESIGN.md section 4/6. "


def register(claim, na):
    claim("C08", "abstract interpretation in a homogeneity-degree/unit domain + def-use rule",
          STRUCT + "Proves, relative to the transfer table, that for all 30 algorithm/method configurations every run()/mpe() output is a homogeneous "
          "function of the data gain (degree 0) and of the time unit (frequencies s^-1, damping/shapes 1), that no decision on the way is "
          "scale dependent, and that each normalisation divides a vector by its own largest-magnitude component. Permutation/rotation "
          "equivariance is not decided.", "DESIGN.md 4 (C08)")
    pending = "check not implemented yet at this commit (design in DESIGN.md section 4); no claim is made"
    for i in range(1, 21):
        pid = f"C{i:02d}"
        if pid not in ("C08",):
            na(pid, pending)
