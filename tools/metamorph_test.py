"""Self-test of the analyser, not of the repository: every check must give the same verdict on the current tree and on copies of it
rewritten, throughout, by one behaviour-preserving edit (tools/metamorph.py: 29 kinds).  A VIOLATION on a rewritten copy of a tree that
passes is a rule judging a spelling; an ANALYSIS-ERROR is a form the analyser does not read yet.  Tool validation only - it is not
part of any registered command, and the copies live in a temporary directory that is removed at the end.

usage: python3-vt tools/metamorph_test.py [--validate] [--compose] [kind ...]
       --compose adds one copy with 28 of the rewrites applied on top of each other
       --validate also runs the repository's test suite against every rewritten copy (executes code; expected: the pinned counts)"""
import os, subprocess, sys, tempfile, shutil, pathlib, concurrent.futures as cf

V = pathlib.Path(__file__).resolve().parents[1]
KINDS = ["intarg", "matmul", "alias", "asarray", "early", "kwargs", "rename", "ifswap", "cmpflip", "floatin",
         "axispos", "axiskw", "range0", "methodform", "retvar", "argtmp", "ternary", "comp2loop", "npname", "wrapper",
         "commute", "kwreorder", "lenshape", "noneform", "attrlocal", "importstyle", "intuple", "notnone", "strconst"]
PROPS = [f"C{i:02d}" for i in range(1, 21)]


def check(root, prop):
    env = dict(os.environ, VERIF_SCRATCH="1")
    r = subprocess.run([str(V / "check"), prop, "--tier", "quick", "--root", str(root)], capture_output=True, text=True, env=env)
    last = (r.stdout.strip().splitlines() or [""])[-1]
    return r.returncode, last


def main():
    args = [a for a in sys.argv[1:] if not a.startswith("--")]
    validate = "--validate" in sys.argv
    kinds = args or KINDS
    tmp = pathlib.Path(tempfile.mkdtemp(prefix="metamorph-"))
    try:
        for k in kinds:
            subprocess.run([sys.executable, str(V / "tools" / "metamorph.py"), k, "/repo/src", str(tmp / k / "src")], check=True, capture_output=True)
        if "--compose" in sys.argv:
            # all the rewrites one after another on the same copy (axiskw left out: it undoes axispos)
            prev = pathlib.Path("/repo/src")
            seq = [k for k in KINDS if k != "axiskw"]
            for i, k in enumerate(seq):
                nxt = tmp / f"_c{i}"
                subprocess.run([sys.executable, str(V / "tools" / "metamorph.py"), k, str(prev), str(nxt)], check=True, capture_output=True)
                if i:
                    shutil.rmtree(prev, ignore_errors=True)
                prev = nxt
            (tmp / "composed").mkdir()
            prev.rename(tmp / "composed" / "src")
            kinds = kinds + ["composed"]
        with cf.ThreadPoolExecutor(16) as ex:
            futs = {ex.submit(check, "/repo/src/pyoma2", p): ("HEAD", p) for p in PROPS}
            futs.update({ex.submit(check, tmp / k / "src" / "pyoma2", p): (k, p) for k in kinds for p in PROPS})
            res = {futs[f]: f.result() for f in cf.as_completed(futs)}
        diff = 0
        for k in kinds:
            bad = [(p, res[(k, p)]) for p in PROPS if res[(k, p)][0] != res[("HEAD", p)][0]]
            diff += len(bad)
            print(f"{k:<11} {len(PROPS) - len(bad)}/{len(PROPS)} verdicts as on the tree as written" + ("" if not bad else ""))
            for p, (rc, last) in bad:
                print(f"    {p}: exit {rc} (as written: {res[('HEAD', p)][0]})  {last[:200]}")
        if validate:
            for k in kinds:
                r = subprocess.run(["/venv/bin/python", "-m", "pytest", "-q", "-p", "no:cacheprovider", "--timeout=900", "--continue-on-collection-errors"],
                                   cwd="/repo", capture_output=True, text=True, env=dict(os.environ, PYTHONPATH=str(tmp / k / "src"), MPLBACKEND="Agg"))
                print(f"{k:<11} test suite: {(r.stdout.strip().splitlines() or ['?'])[-1]}")
        print(f"{len(kinds)} rewrites x {len(PROPS)} checks: {diff} verdict(s) differ")
        return 1 if diff else 0
    finally:
        shutil.rmtree(tmp, ignore_errors=True)


if __name__ == "__main__":
    sys.exit(main())
