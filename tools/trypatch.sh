#!/bin/sh
# usage: tools/trypatch.sh <patch file> <Cxx> [Cxx...]   -- applies the patch to a scratch copy of src/pyoma2 (never /repo)
# and runs the quick checks against it (no evidence written). Scratch copy removed afterwards.
set -e
P=$(readlink -f "$1"); shift
S=$(mktemp -d /tmp/trypatch.XXXXXX)
mkdir -p $S/src && cp -r /repo/src/pyoma2 $S/src/pyoma2
(cd $S && patch -p1 -s < "$P") || { echo "patch failed"; rm -rf $S; exit 3; }
rc=0
for c in "$@"; do
  VERIF_SCRATCH=1 /verif/check $c --root $S/src/pyoma2 | grep -E "VIOLATION|KNOWN-FINDING|ANALYSIS-ERROR|^OK|violated:" || true
done
rm -rf $S
